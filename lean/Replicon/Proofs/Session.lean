import Replicon.Proofs.ClientSync
/-
The composition along a session: the update messages the server sends one client in its session,
applied in order by the client model starting from a fresh client, over ALL histories of the
joint server model.
-/
set_option maxHeartbeats 400000
set_option linter.unusedSimpArgs false
namespace Replicon.Joint
open Replicon Replicon.Srv Replicon.Cli

/-- histories for the session theorem: entity identifiers are not reused, a stopped server sees
a frame before it is started again, and no pre-spawn mapping is registered (C16's subject) -/
def LegalOp2 (s : Server) : Op → Prop
  | .map _ _ _ => False
  | op => LegalOp' s op

def Legal2 : St → List Op → Prop
  | _, [] => True
  | st, op :: ops => LegalOp2 st.srv op ∧ Legal2 (step st op).1 ops

instance (s : Server) (op : Op) : Decidable (LegalOp2 s op) := by
  cases op <;> unfold LegalOp2 <;> infer_instance

def decLegal2 : ∀ (st : St) (ops : List Op), Decidable (Legal2 st ops)
  | _, [] => isTrue trivial
  | st, op :: ops =>
    match (inferInstance : Decidable (LegalOp2 st.srv op)), decLegal2 (step st op).1 ops with
    | isTrue h1, isTrue h2 => isTrue ⟨h1, h2⟩
    | isFalse h1, _ => isFalse fun h => h1 h.1
    | _, isFalse h2 => isFalse fun h => h2 h.2

instance (st : St) (ops : List Op) : Decidable (Legal2 st ops) := decLegal2 st ops

theorem legalOp'_of_2 (s : Server) (op : Op) (h : LegalOp2 s op) : LegalOp' s op := by
  cases op <;> first | exact h | trivial

/-- ghost: the update messages sent to each client since it connected, oldest first -/
abbrev Log := Nat → List Update

def logStep (st : St) (log : Log) : Op → Log
  | .connect c _ => fun x => if x = c then [] else log x
  | .frame t ms parts =>
    fun x => match aget (frame st t ms parts).2.1 x with
      | some o => (match o.update with | some u => log x ++ [u] | none => log x)
      | none => log x
  | _ => log

def runLog : St → Log → List Op → St × Log
  | st, log, [] => (st, log)
  | st, log, op :: ops => runLog (step st op).1 (logStep st log op) ops

theorem runLog_fst : ∀ (ops : List Op) (st : St) (log : Log), (runLog st log ops).1 = (run st ops).1 := by
  intro ops
  induction ops with
  | nil => intro st log; rfl
  | cons op ops ih => intro st log; exact ih _ _

/-- the client model after the session's update messages, from a fresh client -/
def replay (l : List Update) : Client := l.foldl applyUpdate {}

theorem wf_fresh : WF ({} : Client) := by
  refine ⟨?_, ?_, ?_⟩
  · intro se ce h; cases h
  · intro se se' ce h; cases h
  · intro ce h; cases h

theorem held_fresh (se : Nat) : ¬ held ({} : Client) se := by
  rintro ⟨ce, ent, h, _⟩; cases h

/-- every message of the list is acceptable (`MsgOk`) for the client that applied the ones before -/
def logOkFrom : Client → List Update → Prop
  | _, [] => True
  | c, u :: us => MsgOk c u ∧ logOkFrom (applyUpdate c u) us

theorem logOkFrom_append (us : List Update) (u : Update) : ∀ (c : Client),
    logOkFrom c (us ++ [u]) ↔ logOkFrom c us ∧ MsgOk (us.foldl applyUpdate c) u := by
  induction us with
  | nil => intro c; simp [logOkFrom]
  | cons v vs ih =>
    intro c
    simp only [List.cons_append, logOkFrom, List.foldl_cons, ih]
    constructor
    · rintro ⟨a, b, d⟩; exact ⟨⟨a, b⟩, d⟩
    · rintro ⟨⟨a, b⟩, d⟩; exact ⟨a, b, d⟩

/-- per client: no pending mapping, nothing sent while unauthorized, and the replayed client is
well-formed and holds exactly the tracked entities -/
def CliSess (log : Log) (x : Nat × Cli) : Prop :=
  x.2.mappings = [] ∧ (x.2.authorized = false → log x.1 = []) ∧
  WF (replay (log x.1)) ∧ (∀ se, held (replay (log x.1)) se ↔ se ∈ keys x.2) ∧ logOkFrom {} (log x.1)

structure SessInv (st : St) (log : Log) : Prop where
  sync : SyncInv st.srv
  rem : RemInv st.srv
  cli : ∀ x ∈ st.srv.clients, CliSess log x

theorem cliSess_fresh (log : Log) (c : Nat) (cl : Cli) (hm : cl.mappings = []) (hk : cl.mutTick = [])
    (hl : log c = []) : CliSess log (c, cl) := by
  refine ⟨hm, fun _ => hl, ?_, ?_, ?_⟩
  · show WF (replay (log c)); rw [hl]; exact wf_fresh
  · intro se
    show held (replay (log c)) se ↔ se ∈ keys cl
    rw [hl]
    unfold keys; rw [hk]
    constructor
    · intro h; exact absurd h (held_fresh se)
    · intro h; cases h
  · show logOkFrom {} (log c); rw [hl]; trivial

theorem cliSess_congr (log : Log) (c : Nat) (cl cl' : Cli) (hm : cl'.mappings = cl.mappings)
    (ha : cl'.authorized = cl.authorized) (hk : ∀ j, j ∈ keys cl' ↔ j ∈ keys cl) (h : CliSess log (c, cl)) :
    CliSess log (c, cl') := by
  obtain ⟨h1, h2, h3, h4, h5⟩ := h
  exact ⟨hm.trans h1, fun hf => h2 (ha ▸ hf), h3, fun se => (h4 se).trans (hk se).symm, h5⟩

/-- a step that leaves clients and log alone -/
theorem sess_same (st st' : St) (log : Log) (inv : SessInv st log) (hs : SyncInv st'.srv) (hr : RemInv st'.srv)
    (hc : st'.srv.clients = st.srv.clients) : SessInv st' log :=
  ⟨hs, hr, by rw [hc]; exact inv.cli⟩

/-- a step through `updClient` whose function keeps mappings, authorization and tracked entities -/
theorem sess_upd (st st' : St) (log : Log) (inv : SessInv st log) (hs : SyncInv st'.srv) (hr : RemInv st'.srv)
    (c : Nat) (f : Cli → Cli) (hc : st'.srv = st.srv.updClient c f)
    (hf : ∀ cl, CliSess log (c, cl) → CliSess log (c, f cl)) : SessInv st' log := by
  refine ⟨hs, hr, ?_⟩
  intro x hx
  rw [hc] at hx
  rcases mem_updClient st.srv c f x inv.sync.clientsNodup hx with ⟨cl, hm, rfl⟩ | ⟨hm, _⟩
  · exact hf cl (inv.cli _ hm)
  · exact inv.cli x hm

theorem preG_mappings (s : Server) (ms : Nat) (cl : Cli) : (preG s ms cl).mappings = cl.mappings := by
  unfold preG
  have : cl.processAcks.mappings = cl.mappings := by
    unfold Cli.processAcks
    split
    · rfl
    · have : ∀ (l : List Nat) (cl : Cli), (l.foldl ackOne cl).mappings = cl.mappings := by
        intro l
        induction l with
        | nil => intro cl; rfl
        | cons i is ih =>
          intro cl
          rw [List.foldl_cons, ih]
          unfold ackOne
          cases cl.inflight.find? (·.index = i) <;> rfl
      exact this _ _
  split
  · exact this
  · exact this

theorem afterRun_mappings (s : Server) (thisRun time : Nat) (parts : List (List Nat)) (cl : Cli) :
    (afterRun s thisRun time parts cl).mappings = [] := by
  unfold afterRun Cli.visUpdate
  simp only
  have h1 : ∀ (cl : Cli), (cl.register thisRun time parts).mappings = cl.mappings := by
    unfold Cli.register
    induction parts with
    | nil => intro cl; rfl
    | cons p ps ih => intro cl; rw [List.foldl_cons, ih]
  rw [h1]
  have h2 : (despawnPhase s { cl with mappings := [] }).1.mappings = [] := by
    unfold despawnPhase
    simp only
    have : ∀ (l : List Nat) (acc : Cli × List Nat), (l.foldl (despawnStep s) acc).1.mappings = acc.1.mappings := by
      intro l
      induction l with
      | nil => intro acc; rfl
      | cons e es ih => intro acc; rw [List.foldl_cons, ih]; rfl
    exact this _ _
  unfold runClient
  simp only
  split
  · exact h2
  · exact h2

/-- the replication outputs of a frame, looked up by client -/
theorem aget_outs (p : Server) (hn : (p.clients.map (·.1)).Nodup) (c : Nat) :
    aget p.runAll.2 c =
      match aget p.clients c with
      | some cl => if cl.authorized then some (runClient p (p.now + 1) cl).2 else none
      | none => none := by
  have hkeys : (p.runAll.2.map (·.1)).Nodup := by
    have hsub : (p.runAll.2.map (·.1)).Sublist (p.clients.map (·.1)) := by
      unfold Server.runAll
      simp only
      rw [List.filterMap_map]
      have : ∀ l : List (Nat × Cli),
          ((l.filterMap ((fun (x : Nat × Cli × Option ClientOut) => x.2.2.map fun o => (x.1, o)) ∘
            fun (x : Nat × Cli) => if x.2.authorized then
              (x.1, (runClient p (p.now + 1) x.2).1, some (runClient p (p.now + 1) x.2).2) else (x.1, x.2, none))).map (·.1)).Sublist
            (l.map (·.1)) := by
        intro l
        induction l with
        | nil => exact List.Sublist.slnil
        | cons x xs ih =>
          rw [List.filterMap_cons]
          simp only [Function.comp]
          by_cases ha : x.2.authorized = true
          · simp only [ha, if_true, Option.map_some, List.map_cons]
            exact ih.cons_cons _
          · simp only [ha, Bool.false_eq_true, if_false, Option.map_none, List.map_cons]
            exact ih.cons _
      exact this _
    exact hsub.nodup hn
  cases hg : aget p.clients c with
  | none =>
    simp only
    apply aget_none_of_not_mem
    intro hm
    rw [List.mem_map] at hm
    obtain ⟨⟨c', o⟩, hmo, rfl⟩ := hm
    obtain ⟨cl, hcl, _, _⟩ := (mem_runAll_outs p c' o).mp hmo
    have := aget_of_mem_nodup p.clients c' cl hn hcl
    rw [hg] at this; cases this
  | some cl =>
    simp only
    by_cases ha : cl.authorized = true
    · simp only [ha, if_true]
      exact aget_of_mem_nodup _ c _ hkeys ((mem_runAll_outs p c _).mpr ⟨cl, mem_of_aget _ _ _ hg, ha, rfl⟩)
    · simp only [ha, Bool.false_eq_true, if_false]
      apply aget_none_of_not_mem
      intro hm
      rw [List.mem_map] at hm
      obtain ⟨⟨c', o⟩, hmo, rfl⟩ := hm
      obtain ⟨cl', hcl', ha', _⟩ := (mem_runAll_outs p c' o).mp hmo
      have := aget_of_mem_nodup p.clients c' cl' hn hcl'
      rw [hg] at this
      simp only [Option.some.injEq] at this
      rw [this] at ha
      exact ha ha'


theorem replay_append (l : List Update) (u : Update) : replay (l ++ [u]) = applyUpdate (replay l) u := by
  unfold replay
  rw [List.foldl_append]
  rfl

/-- the frame case of the session invariant, for a running server whose run happens -/
theorem sess_frame_ran (st : St) (log : Log) (ticked : Bool) (ms : Nat) (parts : Nat → List (List Nat))
    (inv : SessInv st log) (hr : st.srv.running = true) (hc : (preRun st.srv ticked ms).tickChanged = true) :
    ∀ x ∈ (frame st ticked ms parts).1.srv.clients, CliSess (logStep st log (.frame ticked ms parts)) x := by
  have invp := preRun_sync st.srv ticked ms inv.sync
  have hrm := (preRun_rem st.srv ticked ms hr inv.rem).1
  obtain ⟨h1, _, _, _, _, _⟩ := fullFrame_ran st.srv ticked ms parts hr hc
  obtain ⟨_, _, _, _, p5⟩ := preRun_fields st.srv ticked ms
  have houts : (frame st ticked ms parts).2.1 = (preRun st.srv ticked ms).runAll.2 := frame_outs_eq st ticked ms parts hr hc
  intro x hx
  rw [frame_srv, h1, List.mem_map] at hx
  obtain ⟨y, hy, rfl⟩ := hx
  -- `y` is a client of the pre-run state, i.e. `preG` of a client of `st`
  have hy' := hy
  rw [p5, List.mem_map] at hy'
  obtain ⟨z, hz, hzy⟩ := hy'
  have hzs := inv.cli z hz
  have hyc : CliSess log y := by
    rw [← hzy]
    exact cliSess_congr log z.1 z.2 _ (preG_mappings _ _ _) (preG_sync _ _ _).2.2 (preG_sync _ _ _).2.1 hzs
  obtain ⟨m1, m2, m3, m4, m5⟩ := hyc
  have hag : aget (preRun st.srv ticked ms).clients y.1 = some y.2 :=
    aget_of_mem_nodup _ y.1 y.2 invp.clientsNodup hy
  have hlog : logStep st log (.frame ticked ms parts) y.1 =
      (if y.2.authorized then
        (match (runClient (preRun st.srv ticked ms) ((preRun st.srv ticked ms).now + 1) y.2).2.update with
         | some u => log y.1 ++ [u]
         | none => log y.1)
       else log y.1) := by
    unfold logStep
    simp only
    rw [houts, aget_outs _ invp.clientsNodup y.1, hag]
    simp only
    cases y.2.authorized with
    | false => simp
    | true => simp
  cases ha : y.2.authorized with
  | false =>
    have hrc : ranClient (preRun st.srv ticked ms) parts y = y := by
      unfold ranClient; simp only [ha, Bool.false_eq_true, if_false]
    rw [hrc]
    have hl : logStep st log (.frame ticked ms parts) y.1 = log y.1 := by
      rw [hlog]; simp only [ha, Bool.false_eq_true, if_false]
    refine ⟨m1, fun _ => by rw [hl]; exact m2 ha, ?_, ?_, ?_⟩
    · show WF (replay (logStep st log (.frame ticked ms parts) y.1)); rw [hl]; exact m3
    · intro se
      show held (replay (logStep st log (.frame ticked ms parts) y.1)) se ↔ se ∈ keys y.2
      rw [hl]; exact m4 se
    · show logOkFrom {} (logStep st log (.frame ticked ms parts) y.1); rw [hl]; exact m5
  | true =>
    have hb := frame_both_sides (preRun st.srv ticked ms) parts invp hrm y hy ha m1 (replay (log y.1)) m3 m4
    have hl : logStep st log (.frame ticked ms parts) y.1 =
        (match (runClient (preRun st.srv ticked ms) ((preRun st.srv ticked ms).now + 1) y.2).2.update with
         | some u => log y.1 ++ [u]
         | none => log y.1) := by
      rw [hlog]; simp only [ha, if_true]
    have hmap : (ranClient (preRun st.srv ticked ms) parts y).2.mappings = [] := by
      unfold ranClient; simp only [ha, if_true]; exact afterRun_mappings _ _ _ _ _
    have hauth : (ranClient (preRun st.srv ticked ms) parts y).2.authorized = true := by
      unfold ranClient; simp only [ha, if_true]; rw [afterRun_authorized]; exact ha
    have hna : (ranClient (preRun st.srv ticked ms) parts y).2.authorized = false →
        logStep st log (.frame ticked ms parts) (ranClient (preRun st.srv ticked ms) parts y).1 = [] := by
      intro hf; rw [hauth] at hf; cases hf
    have hok : logOkFrom {} (logStep st log (.frame ticked ms parts) y.1) := by
      rw [hl]
      cases hu : (runClient (preRun st.srv ticked ms) ((preRun st.srv ticked ms).now + 1) y.2).2.update with
      | none => simp only; exact m5
      | some u =>
        simp only
        rw [logOkFrom_append]
        exact ⟨m5, frame_msg_ok (preRun st.srv ticked ms) invp hrm y hy m1 (replay (log y.1)) m4 u hu⟩
    refine ⟨hmap, hna, ?_, ?_, hok⟩
    · show WF (replay (logStep st log (.frame ticked ms parts) y.1))
      rw [hl]
      cases hu : (runClient (preRun st.srv ticked ms) ((preRun st.srv ticked ms).now + 1) y.2).2.update with
      | none => simp only; exact m3
      | some u =>
        simp only
        rw [hu] at hb
        rw [replay_append]; exact hb.1
    · intro se
      show held (replay (logStep st log (.frame ticked ms parts) y.1)) se ↔ se ∈ keys (ranClient (preRun st.srv ticked ms) parts y).2
      rw [hl]
      cases hu : (runClient (preRun st.srv ticked ms) ((preRun st.srv ticked ms).now + 1) y.2).2.update with
      | none =>
        simp only
        rw [hu] at hb
        exact hb se
      | some u =>
        simp only
        rw [hu] at hb
        rw [replay_append]; exact hb.2 se


theorem logStep_frame_nil (st : St) (log : Log) (ticked : Bool) (ms : Nat) (parts : Nat → List (List Nat))
    (h : (frame st ticked ms parts).2.1 = []) (c : Nat) : logStep st log (.frame ticked ms parts) c = log c := by
  unfold logStep
  simp only [h]
  rfl

theorem cliSess_log (log log' : Log) (x : Nat × Cli) (h : log' x.1 = log x.1) (hs : CliSess log x) : CliSess log' x := by
  obtain ⟨h1, h2, h3, h4, h5⟩ := hs
  refine ⟨h1, fun hf => by rw [h]; exact h2 hf, ?_, ?_, ?_⟩
  · rw [h]; exact h3
  · intro se; rw [h]; exact h4 se
  · rw [h]; exact h5

theorem sess_step (st : St) (log : Log) (op : Op) (inv : SessInv st log) (hl : LegalOp2 st.srv op) :
    SessInv (step st op).1 (logStep st log op) := by
  have hl' := legalOp'_of_2 st.srv op hl
  have hl1 : LegalOp st.srv op := (legal_of_legal' [op] st ⟨hl', trivial⟩).1
  have hs := sync_step st op inv.sync hl1
  have hr := rem_step st op inv.rem inv.sync.worldNodup hl'
  cases op with
  | spawn e m cs => exact sess_same st _ log inv hs hr (spawn_worldStep st.srv e m cs inv.sync.worldNodup hl).1
  | despawn e => exact sess_same st _ log inv hs hr (despawn_worldStep st.srv e inv.sync.worldNodup).1
  | insert e k v => exact sess_same st _ log inv hs hr (insert_worldStep st.srv e k v inv.sync.worldNodup).1
  | mutate e k v => exact sess_same st _ log inv hs hr (mutate_worldStep st.srv e k v inv.sync.worldNodup).1
  | remove e k => exact sess_same st _ log inv hs hr (remove_worldStep st.srv e k inv.sync.worldNodup).1
  | mark e on => exact sess_same st _ log inv hs hr (mark_worldStep st.srv e on inv.sync.worldNodup).1
  | vis c e b =>
    refine sess_upd st _ log inv hs hr c _ rfl ?_
    intro cl h
    exact cliSess_congr log c cl _ rfl (setCell_authorized _ _ _) (fun j => by unfold keys; rw [setCell_keys]) h
  | map c e p => exact absurd hl (by intro h; exact h)
  | connect c a =>
    refine ⟨hs, hr, ?_⟩
    intro x hx
    have hx' : x ∈ aset st.srv.clients c { authorized := a } := hx
    rcases (mem_aset _ _ _ _).mp hx' with rfl | ⟨hm, hne⟩
    · exact cliSess_fresh _ c _ rfl rfl (by unfold logStep; simp)
    · exact cliSess_log log _ x (by unfold logStep; simp [hne]) (inv.cli x hm)
  | authorize c =>
    refine sess_upd st _ log inv hs hr c _ rfl ?_
    intro cl h
    split
    · exact h
    · rename_i ha
      exact cliSess_fresh log c _ rfl rfl (h.2.1 (Bool.eq_false_iff.mpr ha))
  | disconnect c =>
    refine ⟨hs, hr, ?_⟩
    intro x hx
    have hx' : x ∈ adel st.srv.clients c := hx
    exact inv.cli x ((mem_adel _ _ _).mp hx').1
  | stop =>
    refine ⟨hs, hr, ?_⟩
    intro x hx
    have hx' : x ∈ ([] : List (Nat × Cli)) := hx
    cases hx'
  | start => exact sess_same st _ log inv hs hr rfl
  | ack c idxs =>
    refine sess_upd st _ log inv hs hr c _ rfl ?_
    intro cl h
    exact cliSess_congr log c cl _ rfl rfl (fun _ => Iff.rfl) h
  | emit em => exact sess_same st _ log inv hs hr rfl
  | frame t ms parts =>
    refine ⟨hs, hr, ?_⟩
    cases hrun : st.srv.running with
    | false =>
      have houts : (frame st t ms parts).2.1 = [] := (frameBegin_stopped st.srv t ms hrun).2.1
      obtain ⟨_, _, _, h4, _⟩ := fullFrame_stopped st.srv t ms parts hrun
      intro x hx
      have hx2 : x ∈ (st.srv.fullFrame t ms parts).clients := hx
      rw [h4] at hx2
      split at hx2
      · cases hx2
      · exact cliSess_log log _ x (logStep_frame_nil st log t ms parts houts x.1) (inv.cli x hx2)
    | true =>
      cases hc : (preRun st.srv t ms).tickChanged with
      | true => exact sess_frame_ran st log t ms parts inv hrun hc
      | false =>
        have houts : (frame st t ms parts).2.1 = [] := by
          show (st.srv.frameBegin t ms).2.2 = []
          rw [frameBegin_running st.srv t ms hrun]
          simp only [hc, Bool.not_false, if_true]
        obtain ⟨_, _, _, _, h5⟩ := fullFrame_idle st.srv t ms parts hrun hc
        obtain ⟨_, _, _, _, p5⟩ := preRun_fields st.srv t ms
        intro x hx
        have hx2 : x ∈ (st.srv.fullFrame t ms parts).clients := hx
        rw [h5, p5, List.mem_map] at hx2
        obtain ⟨z, hz, rfl⟩ := hx2
        have := cliSess_congr log z.1 z.2 (preG st.srv ms z.2) (preG_mappings _ _ _) (preG_sync _ _ _).2.2
          (preG_sync _ _ _).2.1 (inv.cli z hz)
        exact cliSess_log log _ _ (logStep_frame_nil st log t ms parts houts z.1) this

theorem sess_run (ops : List Op) : ∀ (st : St) (log : Log), SessInv st log → Legal2 st ops →
    SessInv (runLog st log ops).1 (runLog st log ops).2 := by
  induction ops with
  | nil => intro st log inv _; exact inv
  | cons op ops ih =>
    intro st log inv hl
    exact ih _ _ (sess_step st log op inv hl.1) hl.2

/-- **A session, over ALL histories, both models.**  After any history (entity identifiers not
reused, a stopped server sees a frame before a restart, no pre-spawn mappings) from a server
without entities and clients: for every connected client, the client model that starts fresh
and applies, in order, the update messages the server sent that client since it connected is
well-formed and holds exactly the entities the server tracks for that client. -/
theorem session_entities (s0 : Server) (hw : s0.world = []) (hc0 : s0.clients = []) (hb : s0.removalBuf = [])
    (ops : List Op) (hl : Legal2 { srv := s0 } ops) :
    ∀ x ∈ (run { srv := s0 } ops).1.srv.clients,
      WF (replay ((runLog { srv := s0 } (fun _ => []) ops).2 x.1)) ∧
      ∀ se, held (replay ((runLog { srv := s0 } (fun _ => []) ops).2 x.1)) se ↔ se ∈ keys x.2 := by
  have inv0 : SessInv ({ srv := s0 } : St) (fun _ => []) := by
    refine ⟨sync_empty s0 hw hc0, ⟨fun _ => hb, fun _ r hrm => ?_⟩, ?_⟩
    · have : r ∈ s0.removalBuf := hrm
      rw [hb] at this; cases this
    · intro x hx
      have : x ∈ s0.clients := hx
      rw [hc0] at this; cases this
  have inv := sess_run ops _ _ inv0 hl
  intro x hx
  rw [← runLog_fst ops _ (fun _ => [])] at hx
  obtain ⟨_, _, h3, h4, _⟩ := inv.cli x hx
  exact ⟨h3, h4⟩


theorem run_append (ops : List Op) (op : Op) : ∀ (st : St), (run st (ops ++ [op])).1 = (step (run st ops).1 op).1 := by
  induction ops with
  | nil => intro st; rfl
  | cons o os ih => intro st; exact ih _

theorem legal2_prefix (ops : List Op) (op : Op) : ∀ (st : St), Legal2 st (ops ++ [op]) →
    Legal2 st ops ∧ LegalOp2 (run st ops).1.srv op := by
  induction ops with
  | nil => intro st h; exact ⟨trivial, h.1⟩
  | cons o os ih =>
    intro st h
    obtain ⟨h1, h2⟩ := ih _ h.2
    exact ⟨⟨h.1, h1⟩, h2⟩

theorem legal'_of_legal2 : ∀ (ops : List Op) (st : St), Legal2 st ops → Legal' st ops := by
  intro ops
  induction ops with
  | nil => intro _ _; trivial
  | cons op ops ih => intro st h; exact ⟨legalOp'_of_2 _ _ h.1, ih _ h.2⟩

/-- **End to end, entity level, ALL histories.**  After any history (entity identifiers not
reused, a stopped server sees a frame before a restart, no pre-spawn mappings) that ends with a
frame in which `send_replication` ran: for every authorized client, the client model that starts
fresh and applies in order the update messages sent to it since it connected holds — as live,
mapped entities carrying the replication marker — exactly the server entities that carry the
replication marker and are visible to that client. -/
theorem session_view (s0 : Server) (hw : s0.world = []) (hc0 : s0.clients = []) (hb : s0.removalBuf = [])
    (ops : List Op) (ticked : Bool) (ms : Nat) (parts : Nat → List (List Nat))
    (hl : Legal2 { srv := s0 } (ops ++ [.frame ticked ms parts]))
    (hr : (run { srv := s0 } ops).1.srv.running = true)
    (hc : (preRun (run { srv := s0 } ops).1.srv ticked ms).tickChanged = true) :
    ∀ x ∈ (run { srv := s0 } (ops ++ [.frame ticked ms parts])).1.srv.clients, x.2.authorized = true →
      WF (replay ((runLog { srv := s0 } (fun _ => []) (ops ++ [.frame ticked ms parts])).2 x.1)) ∧
      ∀ se, held (replay ((runLog { srv := s0 } (fun _ => []) (ops ++ [.frame ticked ms parts])).2 x.1)) se ↔
        marked (run { srv := s0 } (ops ++ [.frame ticked ms parts])).1.srv.world se ∧
        Vis.isVisible (run { srv := s0 } (ops ++ [.frame ticked ms parts])).1.srv.white (cell x.2 se) = true := by
  intro x hx ha
  obtain ⟨h1, h2⟩ := session_entities s0 hw hc0 hb _ hl x hx
  refine ⟨h1, ?_⟩
  intro se
  rw [h2 se]
  have hlp := (legal2_prefix ops _ _ hl).1
  have hview := (history_sync s0 hw hc0 ops (legal_of_legal' ops _ (legal'_of_legal2 ops _ hlp)) ticked ms parts hr hc).1
  rw [run_append] at hx ⊢
  exact hview x hx ha se

end Replicon.Joint

namespace Replicon.Cli
open Replicon Replicon.Srv

/-- one record of a mutate message changes neither the well-formedness nor the held entities -/
theorem applyMutEnt_keeps (c : Client) (tick : Nat) (m : MsgEnt) (wf : WF c) (c' : Client)
    (h : applyMutEnt c tick m = .ok c') : Keeps c c' := by
  unfold applyMutEnt at h
  cases hg : aget c.s2c m.ent with
  | none => rw [hg] at h; simp only [Res.ok.injEq] at h; rw [← h]; exact Keeps.refl c wf
  | some ce =>
    rw [hg] at h
    simp only at h
    cases hw : aget c.world ce with
    | none => rw [hw] at h; cases h
    | some ent =>
      rw [hw] at h
      simp only at h
      cases hh : ent.hist with
      | none => rw [hh] at h; cases h
      | some last =>
        rw [hh] at h
        simp only at h
        split at h
        · simp only [Res.ok.injEq] at h
          rw [← h]
          have k1 := confirm_keeps c ce tick wf
          exact Keeps.trans k1 (writeComps_keeps ce m.comps _ k1.1)
        · simp only [Res.ok.injEq] at h
          rw [← h]; exact Keeps.refl c wf

theorem applyMutate_keeps (c : Client) (m : Mutate) (wf : WF c) : Keeps c (applyMutate c m) := by
  unfold applyMutate
  have : ∀ (l : List MsgEnt) (acc : Client × Bool), Keeps c acc.1 →
      Keeps c (l.foldl (fun (acc : Client × Bool) e =>
        if acc.2 then acc else
        match applyMutEnt acc.1 m.tick e with
        | .ok c' => (c', false)
        | _ => (acc.1, true)) acc).1 := by
    intro l
    induction l with
    | nil => intro acc h; exact h
    | cons e es ih =>
      intro acc h
      rw [List.foldl_cons]
      apply ih
      split
      · exact h
      · cases hr : applyMutEnt acc.1 m.tick e with
        | ok c' => exact Keeps.trans h (applyMutEnt_keeps acc.1 m.tick e h.1 c' hr)
        | err => exact h
        | panic site => exact h
  exact this _ _ (Keeps.refl c wf)

end Replicon.Cli

namespace Replicon.Cli
open Replicon Replicon.Srv

/-- what reaches a client: update messages (reliable, ordered) and whatever the unreliable
channel delivers — any mutate messages, any number of times, in any order, anywhere in between -/
inductive Arrival where
  | upd (u : Update)
  | mutate (m : Mutate)

def runArrivals (c : Client) : List Arrival → Client
  | [] => c
  | .upd u :: rest => runArrivals (applyUpdate c u) rest
  | .mutate m :: rest => runArrivals (applyMutate c m) rest

def updatesOf : List Arrival → List Update
  | [] => []
  | .upd u :: rest => u :: updatesOf rest
  | .mutate _ :: rest => updatesOf rest

theorem msgOk_transfer (c1 c2 : Client) (u : Update) (hh : ∀ se, held c1 se ↔ held c2 se) (h : MsgOk c2 u) : MsgOk c1 u := by
  obtain ⟨h1, h2⟩ := h
  refine ⟨h1, ?_⟩
  intro r hr
  rcases h2 r hr with ⟨a, b⟩ | a
  · exact Or.inl ⟨(hh r.1).mpr a, b⟩
  · exact Or.inr a

/-- mutate messages never change which entities are held: a client that receives the update
messages in order, with arbitrary mutate messages in between, holds what the client that
receives only the update messages holds -/
theorem arrivals_sim : ∀ (l : List Arrival) (c1 c2 : Client), WF c1 → WF c2 → (∀ se, held c1 se ↔ held c2 se) →
    Joint.logOkFrom c2 (updatesOf l) →
    WF (runArrivals c1 l) ∧ ∀ se, held (runArrivals c1 l) se ↔ held ((updatesOf l).foldl applyUpdate c2) se := by
  intro l
  induction l with
  | nil => intro c1 c2 w1 _ hh _; exact ⟨w1, hh⟩
  | cons a rest ih =>
    intro c1 c2 w1 w2 hh hok
    cases a with
    | mutate m =>
      have k := applyMutate_keeps c1 m w1
      exact ih (applyMutate c1 m) c2 k.1 w2 (fun se => (k.2.1 se).trans (hh se)) hok
    | upd u =>
      obtain ⟨ok2, okrest⟩ := hok
      have ok1 := msgOk_transfer c1 c2 u hh ok2
      obtain ⟨w1', h1'⟩ := applyUpdate_held c1 u w1 ok1.1 ok1.2
      obtain ⟨w2', h2'⟩ := applyUpdate_held c2 u w2 ok2.1 ok2.2
      apply ih (applyUpdate c1 u) (applyUpdate c2 u) w1' w2' _ okrest
      intro se
      rw [h1' se, h2' se, hh se]

end Replicon.Cli

namespace Replicon.Joint
open Replicon Replicon.Srv Replicon.Cli

/-- **End to end, entity level, ALL histories, ANY behaviour of the unreliable channel.**  As
`session_view`, for a receiver that gets the session's update messages in order and, anywhere
in between, arbitrary mutate messages (lost, duplicated, reordered, stale or not even sent by
this server): it stays well-formed and holds exactly the replicated entities visible to it. -/
theorem session_view_any_schedule (s0 : Server) (hw : s0.world = []) (hc0 : s0.clients = []) (hb : s0.removalBuf = [])
    (ops : List Op) (ticked : Bool) (ms : Nat) (parts : Nat → List (List Nat))
    (hl : Legal2 { srv := s0 } (ops ++ [.frame ticked ms parts]))
    (hr : (run { srv := s0 } ops).1.srv.running = true)
    (hc : (preRun (run { srv := s0 } ops).1.srv ticked ms).tickChanged = true) :
    ∀ x ∈ (run { srv := s0 } (ops ++ [.frame ticked ms parts])).1.srv.clients, x.2.authorized = true →
      ∀ arrivals : List Arrival,
        updatesOf arrivals = (runLog { srv := s0 } (fun _ => []) (ops ++ [.frame ticked ms parts])).2 x.1 →
        WF (runArrivals {} arrivals) ∧
        ∀ se, held (runArrivals {} arrivals) se ↔
          marked (run { srv := s0 } (ops ++ [.frame ticked ms parts])).1.srv.world se ∧
          Vis.isVisible (run { srv := s0 } (ops ++ [.frame ticked ms parts])).1.srv.white (cell x.2 se) = true := by
  intro x hx ha arrivals harr
  obtain ⟨_, hview⟩ := session_view s0 hw hc0 hb ops ticked ms parts hl hr hc x hx ha
  have inv0 : SessInv ({ srv := s0 } : St) (fun _ => []) := by
    refine ⟨sync_empty s0 hw hc0, ⟨fun _ => hb, fun _ r hrm => ?_⟩, ?_⟩
    · have : r ∈ s0.removalBuf := hrm
      rw [hb] at this; cases this
    · intro y hy
      have : y ∈ s0.clients := hy
      rw [hc0] at this; cases this
  have inv := sess_run _ _ _ inv0 hl
  have hx' := hx
  rw [← runLog_fst _ _ (fun _ => [])] at hx'
  obtain ⟨_, _, _, _, hok⟩ := inv.cli x hx'
  rw [← harr] at hok
  obtain ⟨w, hh⟩ := arrivals_sim arrivals {} {} wf_fresh wf_fresh (fun _ => Iff.rfl) hok
  refine ⟨w, ?_⟩
  intro se
  rw [hh se, harr]
  exact hview se

end Replicon.Joint
