import Replicon.Proofs.TwoWay
/-
Values: what `apply_update_message` does to the value of a plain (not entity-valued) component of
the client entity that stands for a server entity; and the consequence for an entity the client
starts to hold in a frame: it arrives with exactly the server's values.
-/
set_option maxHeartbeats 400000
set_option linter.unusedSimpArgs false
namespace Replicon.Cli
open Replicon Replicon.Srv

/-- the value the client has for component `k` of the entity that stands for server entity `se` -/
def valOn (c : Client) (se k : Nat) : Option Nat :=
  match aget c.s2c se with
  | some ce => (match aget c.world ce with
    | some ent => aget ent.comps k
    | none => none)
  | none => none

theorem valOn_setEnt (c c' : Client) (ce : Nat) (ent' : CEnt)
    (hs : c'.s2c = c.s2c) (hw : c'.world = aset c.world ce ent') (se k : Nat) :
    valOn c' se k = (if aget c.s2c se = some ce then aget ent'.comps k else valOn c se k) := by
  unfold valOn
  rw [hs, hw]
  cases hg : aget c.s2c se with
  | none => simp
  | some x =>
    simp only
    rw [aget_aset]
    by_cases hx : x = ce
    · simp only [hx, if_true]
    · simp only [hx, if_false]
      have : ¬ (some x = some ce) := by intro h; exact hx (Option.some.inj h)
      simp only [this, if_false]

theorem valOn_mapFresh (c : Client) (se : Nat) (ent : CEnt) (wf : WF c) (se' k : Nat) :
    valOn (mapFresh c se ent) se' k = (if se' = se then aget ent.comps k else valOn c se' k) := by
  obtain ⟨f1, f2, _, _⟩ := mapFresh_fields c se ent
  unfold valOn
  rw [f1, f2, aget_aset]
  by_cases he : se' = se
  · simp only [he, if_true]
    rw [aget_aset]; simp only [if_true]
  · simp only [he, if_false]
    cases hg : aget c.s2c se' with
    | none => rfl
    | some ce =>
      simp only
      have : ce ≠ c.next := by
        intro h
        have := wf.bound ce (wf.alive se' ce hg)
        rw [h] at this; exact Nat.lt_irrefl _ this
      rw [aget_aset]; simp only [this, if_false]

theorem valOn_unmapped (c : Client) (se k : Nat) (h : aget c.s2c se = none) : valOn c se k = none := by
  unfold valOn; rw [h]

theorem getMapped_vals (c : Client) (v : Nat) (wf : WF c) (se k : Nat) :
    valOn (getMapped c v).1 se k = valOn c se k := by
  unfold getMapped
  cases hg : aget c.s2c v with
  | some ce => rfl
  | none =>
    show valOn (mapFresh c v {}) se k = _
    rw [valOn_mapFresh c v {} wf]
    by_cases he : se = v
    · simp only [he, if_true]
      rw [valOn_unmapped c v k hg]; rfl
    · simp only [he, if_false]

theorem wstep_entityComps (c : Client) (ce k v : Nat) : (wstep c ce k v).entityComps = c.entityComps := by
  unfold wstep
  have h1 : (if c.entityComps.contains k then getMapped c v else (c, v)).1.entityComps = c.entityComps := by
    split
    · unfold getMapped
      cases aget c.s2c v with
      | some x => rfl
      | none => rfl
    · rfl
  generalize (if c.entityComps.contains k then getMapped c v else (c, v)) = p at h1 ⊢
  cases aget p.1.world ce with
  | none => exact h1
  | some ent => exact h1

/-- one component written: a plain component gets the value written, everything else stays -/
theorem wstep_vals (c : Client) (ce k0 v0 : Nat) (wf : WF c) (hal : (aget c.world ce).isSome = true) (se k : Nat) :
    valOn (wstep c ce k0 v0) se k =
      (if aget c.s2c se = some ce ∧ k = k0 then
        some (if c.entityComps.contains k0 then (getMapped c v0).2 else v0)
       else valOn c se k) := by
  unfold wstep
  have hv1 : ∀ se k, valOn (if c.entityComps.contains k0 then getMapped c v0 else (c, v0)).1 se k = valOn c se k := by
    intro se k
    split
    · exact getMapped_vals c v0 wf se k
    · rfl
  have hs1 : ∀ se', aget (if c.entityComps.contains k0 then getMapped c v0 else (c, v0)).1.s2c se' = some ce ↔
      aget c.s2c se' = some ce := by
    intro se'
    split
    · exact getMapped_s2c_iff c v0 wf se' ce hal
    · exact Iff.rfl
  have hp2 : (if c.entityComps.contains k0 then getMapped c v0 else (c, v0)).2 =
      (if c.entityComps.contains k0 then (getMapped c v0).2 else v0) := by
    split <;> rfl
  have hk : Keeps c (if c.entityComps.contains k0 then getMapped c v0 else (c, v0)).1 := by
    split
    · exact getMapped_keeps c v0 wf
    · exact Keeps.refl c wf
  rw [← hp2]
  generalize (if c.entityComps.contains k0 then getMapped c v0 else (c, v0)) = p at hv1 hs1 hk ⊢
  have hal1 : (aget p.1.world ce).isSome = true := by
    cases hg : aget c.world ce with
    | none => rw [hg] at hal; cases hal
    | some ent =>
      obtain ⟨e', h', _⟩ := hk.2.2.1 ce ent hg
      rw [h']; rfl
  cases hg1 : aget p.1.world ce with
  | none => rw [hg1] at hal1; cases hal1
  | some ent1 =>
    simp only
    rw [valOn_setEnt p.1 ({ p.1 with world := aset p.1.world ce { ent1 with comps := aset ent1.comps k0 p.2 } } : Client)
      ce { ent1 with comps := aset ent1.comps k0 p.2 } rfl rfl se k]
    by_cases hm : aget p.1.s2c se = some ce
    · have hm' := (hs1 se).mp hm
      simp only [hm, if_true, hm', true_and]
      show aget (aset ent1.comps k0 p.2) k = _
      rw [aget_aset]
      by_cases hkk : k = k0
      · simp only [hkk, if_true]
      · simp only [hkk, if_false]
        rw [← hv1 se k]
        unfold valOn
        rw [hm]; simp only [hg1]
    · have hm' : ¬ aget c.s2c se = some ce := fun h => hm ((hs1 se).mpr h)
      simp only [hm, if_false, hm', false_and]
      exact hv1 se k

end Replicon.Cli

namespace Replicon.Cli
open Replicon Replicon.Srv

theorem aget_cons_ne {α : Type} (l : List (Nat × α)) (k0 : Nat) (v0 : α) (k : Nat) (h : k ≠ k0) :
    aget ((k0, v0) :: l) k = aget l k := by
  unfold aget
  rw [List.lookup_cons]
  have : (k == k0) = false := by simp [h]
  rw [this]

theorem aget_cons_eq {α : Type} (l : List (Nat × α)) (k0 : Nat) (v0 : α) : aget ((k0, v0) :: l) k0 = some v0 := by
  unfold aget
  rw [List.lookup_cons]
  simp

/-- `writeComps` on a live entity: a plain component named by the record (distinct kinds) gets
the record's value on the server entity mapped to `ce`; every other value stays -/
theorem writeComps_vals (ce : Nat) (comps : List (Nat × Nat)) : ∀ (c : Client), WF c → (aget c.world ce).isSome = true →
    (comps.map (·.1)).Nodup → ∀ se k, c.entityComps.contains k = false →
    valOn (writeComps c ce comps) se k =
      (if aget c.s2c se = some ce ∧ k ∈ comps.map (·.1) then aget comps k else valOn c se k) := by
  induction comps with
  | nil => intro c _ _ _ se k _; unfold writeComps; simp
  | cons kv rest ih =>
    intro c wf hal hnd se k hplain
    obtain ⟨k0, v0⟩ := kv
    rw [List.map_cons, List.nodup_cons] at hnd
    rw [writeComps_cons]
    obtain ⟨w1, a1, s1, _⟩ := wstep_spec c ce k0 v0 wf hal
    have hp1 : (wstep c ce k0 v0).entityComps.contains k = false := by rw [wstep_entityComps]; exact hplain
    rw [ih _ w1 a1 hnd.2 se k hp1, wstep_vals c ce k0 v0 wf hal se k]
    by_cases hm : aget c.s2c se = some ce
    · have hm1 : aget (wstep c ce k0 v0).s2c se = some ce := (s1 se).mpr hm
      simp only [hm1, hm, true_and, List.map_cons, List.mem_cons]
      by_cases hk : k = k0
      · subst hk
        have hnr : k ∉ rest.map (·.1) := hnd.1
        simp only [hnr, if_false, true_or, if_true]
        rw [aget_cons_eq]
        simp only [hplain, Bool.false_eq_true, if_false]
      · simp only [hk, false_or, if_false]
        by_cases hr : k ∈ rest.map (·.1)
        · simp only [hr, if_true]
          rw [aget_cons_ne rest k0 v0 k hk]
        · simp only [hr, if_false]
    · have hm1 : ¬ aget (wstep c ce k0 v0).s2c se = some ce := fun h => hm ((s1 se).mp h)
      simp only [hm1, hm, false_and, if_false]

theorem confirm_vals (c : Client) (ce t : Nat) (se k : Nat) : valOn (confirm c ce t) se k = valOn c se k := by
  unfold confirm
  cases hg : aget c.world ce with
  | none => rfl
  | some ent =>
    simp only
    rw [valOn_setEnt c ({ c with world := aset c.world ce { ent with hist := some t } } : Client) ce
      { ent with hist := some t } rfl rfl se k]
    split
    · rename_i hm
      unfold valOn
      rw [hm]; simp only [hg]
    · rfl

/-- `targetEntity` changes no value -/
theorem targetEntity_vals (c : Client) (se : Nat) (b : Bool) (wf : WF c) (c' : Client) (ce : Nat)
    (h : targetEntity c se b = .ok (c', ce)) (se' k : Nat) : valOn c' se' k = valOn c se' k := by
  unfold targetEntity at h
  cases hg : aget c.s2c se with
  | none =>
    rw [hg] at h
    simp only [Res.ok.injEq, Prod.mk.injEq] at h
    rw [← h.1]
    show valOn (mapFresh c se { marked := true }) se' k = _
    rw [valOn_mapFresh c se { marked := true } wf]
    by_cases he : se' = se
    · simp only [he, if_true]
      rw [valOn_unmapped c se k hg]; rfl
    · simp only [he, if_false]
  | some x =>
    rw [hg] at h
    simp only at h
    cases hw : aget c.world x with
    | none => rw [hw] at h; cases h
    | some ent =>
      rw [hw] at h
      simp only at h
      split at h
      · simp only [Res.ok.injEq, Prod.mk.injEq] at h
        rw [← h.1]
        rw [valOn_setEnt c ({ c with world := aset c.world x { ent with marked := true } } : Client) x
          { ent with marked := true } rfl rfl se' k]
        split
        · rename_i hm
          unfold valOn
          rw [hm]; simp only [hw]
        · rfl
      · simp only [Res.ok.injEq, Prod.mk.injEq] at h
        rw [← h.1]

theorem targetEntity_entityComps (c : Client) (se : Nat) (b : Bool) (c' : Client) (ce : Nat)
    (h : targetEntity c se b = .ok (c', ce)) : c'.entityComps = c.entityComps := by
  unfold targetEntity at h
  cases hg : aget c.s2c se with
  | none =>
    rw [hg] at h
    simp only [Res.ok.injEq, Prod.mk.injEq] at h
    rw [← h.1]; rfl
  | some x =>
    rw [hg] at h
    simp only at h
    cases hw : aget c.world x with
    | none => rw [hw] at h; cases h
    | some ent =>
      rw [hw] at h
      simp only at h
      split at h
      · simp only [Res.ok.injEq, Prod.mk.injEq] at h
        rw [← h.1]
      · simp only [Res.ok.injEq, Prod.mk.injEq] at h
        rw [← h.1]

/-- `apply_changes` for one record with distinct kinds: the plain components of the record's
entity named by the record get the record's values, everything else stays -/
theorem applyChange_vals (tick : Nat) (c : Client) (m : MsgEnt) (wf : WF c) (hnd : (m.comps.map (·.1)).Nodup)
    (c' : Client) (h : applyChange tick c m = some c') (se k : Nat) (hplain : c.entityComps.contains k = false) :
    valOn c' se k = (if se = m.ent ∧ k ∈ m.comps.map (·.1) then aget m.comps k else valOn c se k) := by
  obtain ⟨c1, ce, h1, w1, hs, hal, _⟩ := targetEntity_kinds c m.ent true wf
  have k2 := confirm_keepsK c1 ce tick w1
  have hs2 : aget (confirm c1 ce tick).s2c m.ent = some ce := k2.1.2.2.2 m.ent ce hs
  have hal2 : (aget (confirm c1 ce tick).world ce).isSome = true := by
    cases hg : aget c1.world ce with
    | none => rw [hg] at hal; cases hal
    | some ent =>
      obtain ⟨e', h', _⟩ := k2.1.2.2.1 ce ent hg
      rw [h']; rfl
  have hec : (confirm c1 ce tick).entityComps.contains k = false := by
    have h2 : (confirm c1 ce tick).entityComps = c1.entityComps := by
      unfold confirm; cases aget c1.world ce <;> rfl
    rw [h2, targetEntity_entityComps c m.ent true c1 ce h1]; exact hplain
  unfold applyChange at h
  rw [h1] at h
  simp only [Option.some.injEq] at h
  rw [← h, writeComps_vals ce m.comps _ k2.1.1 hal2 hnd se k hec, confirm_vals, targetEntity_vals c m.ent true wf c1 ce h1]
  have hiff := s2c_eq_iff (confirm c1 ce tick) k2.1.1 m.ent ce hs2 se
  by_cases he : se = m.ent
  · subst he
    simp only [hs2, true_and]
  · have : ¬ aget (confirm c1 ce tick).s2c se = some ce := fun h => he (hiff.mp h)
    simp only [this, he, false_and]

end Replicon.Cli

namespace Replicon.Cli
open Replicon Replicon.Srv

theorem writeComps_vals_other (ce : Nat) (comps : List (Nat × Nat)) : ∀ (c : Client), WF c → (aget c.world ce).isSome = true →
    ∀ se k, aget c.s2c se ≠ some ce → valOn (writeComps c ce comps) se k = valOn c se k := by
  induction comps with
  | nil => intro c _ _ se k _; rfl
  | cons kv rest ih =>
    intro c wf hal se k hne
    obtain ⟨k0, v0⟩ := kv
    rw [writeComps_cons]
    obtain ⟨w1, a1, s1, _⟩ := wstep_spec c ce k0 v0 wf hal
    have hne1 : aget (wstep c ce k0 v0).s2c se ≠ some ce := fun h => hne ((s1 se).mp h)
    rw [ih _ w1 a1 se k hne1, wstep_vals c ce k0 v0 wf hal se k]
    simp only [hne, false_and, if_false]

theorem writeComps_entityComps (ce : Nat) (comps : List (Nat × Nat)) : ∀ (c : Client),
    (writeComps c ce comps).entityComps = c.entityComps := by
  induction comps with
  | nil => intro c; rfl
  | cons kv rest ih =>
    intro c
    obtain ⟨k0, v0⟩ := kv
    rw [writeComps_cons, ih, wstep_entityComps]

theorem confirm_entityComps (c : Client) (ce t : Nat) : (confirm c ce t).entityComps = c.entityComps := by
  unfold confirm; cases aget c.world ce <;> rfl

theorem applyChange_other (tick : Nat) (c : Client) (m : MsgEnt) (wf : WF c) (c' : Client)
    (h : applyChange tick c m = some c') (se k : Nat) (hne : se ≠ m.ent) :
    valOn c' se k = valOn c se k ∧ c'.entityComps = c.entityComps := by
  obtain ⟨c1, ce, h1, w1, hs, hal, _⟩ := targetEntity_kinds c m.ent true wf
  have k2 := confirm_keepsK c1 ce tick w1
  have hs2 : aget (confirm c1 ce tick).s2c m.ent = some ce := k2.1.2.2.2 m.ent ce hs
  have hal2 : (aget (confirm c1 ce tick).world ce).isSome = true := by
    cases hg : aget c1.world ce with
    | none => rw [hg] at hal; cases hal
    | some ent =>
      obtain ⟨e', h', _⟩ := k2.1.2.2.1 ce ent hg
      rw [h']; rfl
  unfold applyChange at h
  rw [h1] at h
  simp only [Option.some.injEq] at h
  rw [← h]
  have hnm : aget (confirm c1 ce tick).s2c se ≠ some ce :=
    fun hh => hne ((s2c_eq_iff (confirm c1 ce tick) k2.1.1 m.ent ce hs2 se).mp hh)
  refine ⟨?_, ?_⟩
  · rw [writeComps_vals_other ce m.comps _ k2.1.1 hal2 se k hnm, confirm_vals, targetEntity_vals c m.ent true wf c1 ce h1]
  · rw [writeComps_entityComps, confirm_entityComps, targetEntity_entityComps c m.ent true c1 ce h1]

theorem applyChange_entityComps (tick : Nat) (c : Client) (m : MsgEnt) (wf : WF c) (c' : Client)
    (h : applyChange tick c m = some c') : c'.entityComps = c.entityComps := by
  obtain ⟨c1, ce, h1, _, _, _, _⟩ := targetEntity_kinds c m.ent true wf
  unfold applyChange at h
  rw [h1] at h
  simp only [Option.some.injEq] at h
  rw [← h, writeComps_entityComps, confirm_entityComps, targetEntity_entityComps c m.ent true c1 ce h1]

/-- the CHANGES section: if every record for entity `e` is `r` (distinct kinds) and `r` is in the
section, a plain component named by `r` has `r`'s value on `e` afterwards -/
theorem changes_vals (tick : Nat) (e : Nat) (r : MsgEnt) (hre : r.ent = e) (hnd : (r.comps.map (·.1)).Nodup) (k : Nat)
    (hk : k ∈ r.comps.map (·.1)) :
    ∀ (l : List MsgEnt) (c : Client), WF c → c.entityComps.contains k = false → (∀ m ∈ l, m.ent = e → m = r) →
      (r ∈ l ∨ valOn c e k = aget r.comps k) →
      valOn (foldOpt (applyChange tick) (c, false) l).1 e k = aget r.comps k := by
  intro l
  induction l with
  | nil =>
    intro c _ _ _ h
    rcases h with h | h
    · cases h
    · exact h
  | cons x xs ih =>
    intro c wf hplain hall h
    obtain ⟨c1, e1, w1, _⟩ := applyChange_kinds tick c x wf
    have hstep : foldOpt (applyChange tick) (c, false) (x :: xs) = foldOpt (applyChange tick) (c1, false) xs := by
      unfold foldOpt
      rw [List.foldl_cons]
      simp only [Bool.false_eq_true, if_false, e1]
    rw [hstep]
    have hec : c1.entityComps.contains k = false := by rw [applyChange_entityComps tick c x wf c1 e1]; exact hplain
    apply ih c1 w1 hec (fun m hm => hall m (List.mem_cons_of_mem _ hm))
    by_cases hx : x.ent = e
    · have hxr : x = r := hall x List.mem_cons_self hx
      right
      rw [hxr] at e1
      rw [applyChange_vals tick c r wf hnd c1 e1 e k hplain]
      simp only [hre, hk, and_self, if_true]
    · rcases h with h | h
      · rcases List.mem_cons.mp h with h' | h'
        · rw [← h'] at hx; exact absurd hre hx
        · exact Or.inl h'
      · right
        rw [(applyChange_other tick c x wf c1 e1 e k (fun he => hx he.symm)).1]
        exact h

end Replicon.Cli

namespace Replicon.Cli
open Replicon Replicon.Srv

theorem applyDespawn_entityComps (c : Client) (se : Nat) : (applyDespawn c se).entityComps = c.entityComps := by
  unfold applyDespawn mapRemove
  cases aget c.s2c se <;> rfl

theorem despawns_entityComps : ∀ (l : List Nat) (c : Client), (l.foldl applyDespawn c).entityComps = c.entityComps := by
  intro l
  induction l with
  | nil => intro c; rfl
  | cons x xs ih => intro c; rw [List.foldl_cons, ih, applyDespawn_entityComps]

theorem applyRemoval_entityComps (tick : Nat) (c : Client) (r : Nat × List Nat) (wf : WF c) (c' : Client)
    (h : applyRemoval tick c r = some c') : c'.entityComps = c.entityComps := by
  obtain ⟨c1, ce, h1, _, _, _, _⟩ := targetEntity_kinds c r.1 false wf
  unfold applyRemoval at h
  rw [h1] at h
  simp only at h
  cases hg : aget (confirm c1 ce tick).world ce with
  | none =>
    rw [hg] at h
    simp only [Option.some.injEq] at h
    rw [← h, confirm_entityComps, targetEntity_entityComps c r.1 false c1 ce h1]
  | some ent =>
    rw [hg] at h
    simp only [Option.some.injEq] at h
    rw [← h]
    show (confirm c1 ce tick).entityComps = _
    rw [confirm_entityComps, targetEntity_entityComps c r.1 false c1 ce h1]

theorem removals_entityComps (tick : Nat) : ∀ (l : List (Nat × List Nat)) (c : Client), WF c →
    (foldOpt (applyRemoval tick) (c, false) l).1.entityComps = c.entityComps := by
  intro l
  induction l with
  | nil => intro c _; rfl
  | cons x xs ih =>
    intro c wf
    obtain ⟨c1, e1, w1, _⟩ := applyRemoval_kinds tick c x wf
    have hstep : foldOpt (applyRemoval tick) (c, false) (x :: xs) = foldOpt (applyRemoval tick) (c1, false) xs := by
      unfold foldOpt
      rw [List.foldl_cons]
      simp only [Bool.false_eq_true, if_false, e1]
    rw [hstep, ih c1 w1, applyRemoval_entityComps tick c x wf c1 e1]

/-- **`apply_update_message`, the values of an entity with a record in CHANGES**: if `r` is the
message's only record for entity `e` (distinct kinds), then after the message every plain
component named by `r` has `r`'s value on the client's entity for `e`. -/
theorem applyUpdate_record_vals (c : Client) (u : Update) (wf : WF c) (hm : u.mappings = []) (e : Nat) (r : MsgEnt)
    (hr : r ∈ u.changes) (hre : r.ent = e) (hall : ∀ m ∈ u.changes, m.ent = e → m = r)
    (hnd : (r.comps.map (·.1)).Nodup) (k : Nat) (hk : k ∈ r.comps.map (·.1)) (hplain : c.entityComps.contains k = false) :
    valOn (applyUpdate c u) e k = aget r.comps k := by
  unfold applyUpdate
  simp only [hm, List.foldl_nil]
  have wf0 : WF { c with updateTick := u.tick } := ⟨wf.alive, wf.inj, wf.bound⟩
  obtain ⟨w1, _⟩ := despawns_spec u.despawns _ wf0
  obtain ⟨f2, w2, _, _⟩ := removals_spec u.tick u.removals _ w1
  have hec2 := removals_entityComps u.tick u.removals _ w1
  rw [despawns_entityComps] at hec2
  generalize hc2 : foldOpt (applyRemoval u.tick) (u.despawns.foldl applyDespawn { c with updateTick := u.tick }, false) u.removals = st2 at f2 w2 hec2
  have hst2 : st2 = (st2.1, false) := by rw [← f2]
  rw [hst2]
  apply changes_vals u.tick e r hre hnd k hk u.changes st2.1 w2 _ hall (Or.inl hr)
  rw [hec2]; exact hplain

end Replicon.Cli

namespace Replicon.Srv
open Replicon Replicon.Cli

theorem present_keys_sublist (s : Server) (ent : SEnt) : ((present s ent).map (·.1)).Sublist (s.rates.map (·.1)) := by
  unfold present
  induction s.rates with
  | nil => exact List.Sublist.slnil
  | cons x xs ih =>
    rw [List.filterMap_cons]
    cases hg : aget ent.comps x.1 with
    | none => simp only [hg, Option.map_none, List.map_cons]; exact ih.cons _
    | some c => simp only [hg, Option.map_some, List.map_cons]; exact ih.cons_cons _

theorem present_keys_nodup (s : Server) (ent : SEnt) (h : (s.rates.map (·.1)).Nodup) :
    ((present s ent).map (·.1)).Nodup := (present_keys_sublist s ent).nodup h

/-- the record of an entity sent whole, and the value it carries for every replicated component -/
def wholeRecord (s : Server) (e : Nat) (ent : SEnt) : MsgEnt :=
  { ent := e, comps := (present s ent).map fun x => (x.1, x.2.2.val) }

theorem wholeRecord_keys (s : Server) (e : Nat) (ent : SEnt) :
    (wholeRecord s e ent).comps.map (·.1) = (present s ent).map (·.1) := by
  unfold wholeRecord
  simp only [List.map_map]
  rfl

theorem wholeRecord_value (s : Server) (e : Nat) (ent : SEnt) (h : (s.rates.map (·.1)).Nodup) (k : Nat) (r : Rate) (c : Comp)
    (hp : (k, r, c) ∈ present s ent) : aget (wholeRecord s e ent).comps k = some c.val := by
  apply aget_of_mem_nodup
  · rw [wholeRecord_keys]; exact present_keys_nodup s ent h
  · unfold wholeRecord
    simp only
    rw [List.mem_map]
    exact ⟨(k, r, c), hp, rfl⟩

/-- **One frame, both sides, values of a newly held entity.**  In a state of the invariants, for an
authorized client without pending pre-spawn mapping and a well-formed receiver that holds the
tracked entities: an entity the server starts to track for the client in this frame (it was
spawned, became visible, or the client was just authorized) arrives in an update message, and
after applying that message the receiver has, for every plain replicated component of the
entity, exactly the server's current value. -/
theorem frame_new_entity_values (p : Server) (sinv : SyncInv p) (hrm : RemovalsMarked p)
    (hrates : (p.rates.map (·.1)).Nodup)
    (x : Nat × Cli) (hx : x ∈ p.clients) (hmap : x.2.mappings = [])
    (c : Client) (wf : WF c) (hh : ∀ se, held c se ↔ se ∈ keys x.2)
    (e : Nat) (hnew : e ∉ keys (runCl1 p x.2)) (hb : e ∈ runBumped p (p.now + 1) x.2)
    (ent : SEnt) (hw : (e, ent) ∈ p.world) :
    ∃ u, (runClient p (p.now + 1) x.2).2.update = some u ∧
      ∀ k r comp, (k, r, comp) ∈ present p ent → c.entityComps.contains k = false →
        valOn (applyUpdate c u) e k = some comp.val := by
  obtain ⟨ent', m, h1, h2, h3⟩ := (mem_runBumped p (p.now + 1) x.2 e).mp hb
  have := world_unique p sinv.worldNodup e ent ent' hw h1
  subst this
  have hvs := collect_bump_visible p (p.now + 1) _ e ent m h3
  have hnone : aget (runCl1 p x.2).mutTick e = none := aget_none_of_not_mem _ _ hnew
  have hwhole := collect_unknown_whole p (p.now + 1) (runCl1 p x.2) e ent m hvs hnone
  have hrec : (collectEntity p (p.now + 1) (runCl1 p x.2) e ent m).toUpdate = some (wholeRecord p e ent) := by
    rw [hwhole]; rfl
  -- an update message is sent
  cases hu : (runClient p (p.now + 1) x.2).2.update with
  | none =>
    exfalso
    obtain ⟨_, _, n3⟩ := runClient_no_update p (p.now + 1) x.2 hu
    have : wholeRecord p e ent ∈ (entityOuts p (p.now + 1) (runCl1 p x.2)).filterMap fun x => x.2.toUpdate := by
      rw [List.mem_filterMap]
      exact ⟨(e, _), (mem_entityOuts p _ _ e _).mpr ⟨ent, m, hw, h2, rfl⟩, hrec⟩
    rw [n3] at this; cases this
  | some u =>
    refine ⟨u, rfl, ?_⟩
    intro k r comp hp hplain
    have hchg := (runClient_sections p _ x.2 u hu).2.2
    have hmem : wholeRecord p e ent ∈ u.changes := by
      rw [hchg, List.mem_filterMap]
      exact ⟨(e, _), (mem_entityOuts p _ _ e _).mpr ⟨ent, m, hw, h2, rfl⟩, hrec⟩
    have hall : ∀ mm ∈ u.changes, mm.ent = e → mm = wholeRecord p e ent := by
      intro mm hmm he
      rw [hchg, List.mem_filterMap] at hmm
      obtain ⟨⟨e', o⟩, ho, hto⟩ := hmm
      obtain ⟨ent2, m2, w1, w2, rfl⟩ := (mem_entityOuts p _ _ e' o).mp ho
      simp only at hto
      have he' := (collect_toUpdate p _ _ e' ent2 m2 mm hto).1
      rw [he] at he'
      subst he'
      have := world_unique p sinv.worldNodup e ent ent2 hw w1
      subst this
      rw [h2] at w2
      simp only [Option.some.injEq] at w2
      subst w2
      rw [hrec] at hto
      exact (Option.some.inj hto).symm
    have hmp : u.mappings = [] := (frame_msg_ok p sinv hrm x hx hmap c hh u hu).1
    rw [applyUpdate_record_vals c u wf hmp e (wholeRecord p e ent) hmem rfl hall
      (by rw [wholeRecord_keys]; exact present_keys_nodup p ent hrates) k
      (by rw [wholeRecord_keys]; exact List.mem_map_of_mem (f := (·.1)) hp) hplain]
    exact wholeRecord_value p e ent hrates k r comp hp

end Replicon.Srv

namespace Replicon.Joint
open Replicon Replicon.Srv Replicon.Cli

theorem step_rates (st : St) (op : Op) : (step st op).1.srv.rates = st.srv.rates := by
  cases op with
  | spawn e m cs => rfl
  | despawn e =>
    show (st.srv.despawn e).rates = _
    unfold Server.despawn
    cases aget st.srv.world e with
    | none => rfl
    | some ent =>
      simp only
      split
      · show (st.srv.leaveReplication e).rates = _
        unfold Server.leaveReplication; split <;> rfl
      · rfl
  | insert e k v =>
    show (st.srv.insert e k v).rates = _
    unfold Server.insert; cases aget st.srv.world e <;> rfl
  | mutate e k v =>
    show (st.srv.mutate e k v).rates = _
    unfold Server.mutate
    cases aget st.srv.world e with
    | none => rfl
    | some ent => simp only; cases aget ent.comps k <;> rfl
  | remove e k =>
    show (st.srv.remove e k).rates = _
    unfold Server.remove
    cases aget st.srv.world e with
    | none => rfl
    | some ent => simp only; split <;> rfl
  | mark e on =>
    show (st.srv.mark e on).rates = _
    unfold Server.mark
    cases aget st.srv.world e with
    | none => rfl
    | some ent =>
      simp only
      cases on with
      | true => simp only [if_true]; split <;> rfl
      | false =>
        simp only [Bool.false_eq_true, if_false]
        split
        · rfl
        · show (st.srv.leaveReplication e).rates = _
          unfold Server.leaveReplication; split <;> rfl
  | vis c e b => exact (updClient_ckfields st.srv c _).2.1
  | map c e p => exact (updClient_ckfields st.srv c _).2.1
  | connect c a => rfl
  | authorize c => exact (updClient_ckfields st.srv c _).2.1
  | disconnect c => rfl
  | stop => rfl
  | start => rfl
  | ack c idxs => exact (updClient_ckfields st.srv c _).2.1
  | emit em => rfl
  | frame t ms parts => exact fullFrame_rates st.srv t ms parts

theorem run_rates (ops : List Op) : ∀ (st : St), (run st ops).1.srv.rates = st.srv.rates := by
  induction ops with
  | nil => intro st; rfl
  | cons op ops ih => intro st; exact (ih _).trans (step_rates st op)

/-- **Values of a newly held entity, over ALL histories, both models.**  After any history (entity
identifiers not reused, a stopped server sees a frame before a restart, no pre-spawn mappings;
replication rules for distinct components), in the next frame of a running server: for every
authorized client and every entity the server starts to track for it in that frame — spawned,
made visible, or the client was just authorized — an update message is sent, and the client model
that was fed the session's update messages in order and now applies this one has, for every plain
(not entity-valued) replicated component of the entity, exactly the server's current value. -/
theorem history_new_entity_values (s0 : Server) (hw : s0.world = []) (hc0 : s0.clients = []) (hb : s0.removalBuf = [])
    (hrates : (s0.rates.map (·.1)).Nodup)
    (ops : List Op) (hl : Legal2 { srv := s0 } ops) (ticked : Bool) (ms : Nat)
    (hr : (run { srv := s0 } ops).1.srv.running = true)
    (z : Nat × Cli) (hz : z ∈ (run { srv := s0 } ops).1.srv.clients)
    (e : Nat)
    (hnew : e ∉ keys (runCl1 (preRun (run { srv := s0 } ops).1.srv ticked ms) (preG (run { srv := s0 } ops).1.srv ms z.2)))
    (hbump : e ∈ runBumped (preRun (run { srv := s0 } ops).1.srv ticked ms)
      ((preRun (run { srv := s0 } ops).1.srv ticked ms).now + 1) (preG (run { srv := s0 } ops).1.srv ms z.2))
    (ent : SEnt) (hwld : (e, ent) ∈ (run { srv := s0 } ops).1.srv.world) :
    ∃ u, (runClient (preRun (run { srv := s0 } ops).1.srv ticked ms)
        ((preRun (run { srv := s0 } ops).1.srv ticked ms).now + 1) (preG (run { srv := s0 } ops).1.srv ms z.2)).2.update = some u ∧
      ∀ k r comp, (k, r, comp) ∈ present (run { srv := s0 } ops).1.srv ent →
        (replay ((runLog { srv := s0 } (fun _ => []) ops).2 z.1)).entityComps.contains k = false →
        valOn (applyUpdate (replay ((runLog { srv := s0 } (fun _ => []) ops).2 z.1)) u) e k = some comp.val := by
  have inv0 : SessInv ({ srv := s0 } : St) (fun _ => []) := by
    refine ⟨sync_empty s0 hw hc0, ⟨fun _ => hb, fun _ r hrm => ?_⟩, ?_⟩
    · have : r ∈ s0.removalBuf := hrm
      rw [hb] at this; cases this
    · intro y hy
      have : y ∈ s0.clients := hy
      rw [hc0] at this; cases this
  have inv := sess_run ops _ _ inv0 hl
  rw [runLog_fst] at inv
  have hrt : (run { srv := s0 } ops).1.srv.rates = s0.rates := run_rates ops _
  generalize (run { srv := s0 } ops).1 = st at inv hr hz hnew hbump hwld hrt ⊢
  generalize (runLog { srv := s0 } (fun _ => []) ops).2 = log at inv ⊢
  obtain ⟨m1, _, m3, m4, _⟩ := inv.cli z hz
  have sinvp := preRun_sync st.srv ticked ms inv.sync
  have hrm := (preRun_rem st.srv ticked ms hr inv.rem).1
  obtain ⟨p1, _, _, _, p5⟩ := preRun_fields st.srv ticked ms
  obtain ⟨_, _, _, q4, _, _, _⟩ := preRun_kindfields st.srv ticked ms hr
  have hy : (z.1, preG st.srv ms z.2) ∈ (preRun st.srv ticked ms).clients := by
    rw [p5]; exact List.mem_map_of_mem (f := fun x => (x.1, preG st.srv ms x.2)) hz
  have hmap : (preG st.srv ms z.2).mappings = [] := (preG_mappings _ _ _).trans m1
  have hh : ∀ se, held (replay (log z.1)) se ↔ se ∈ keys (preG st.srv ms z.2) :=
    fun se => (m4 se).trans ((preG_sync st.srv ms z.2).2.1 se).symm
  have hwld' : (e, ent) ∈ (preRun st.srv ticked ms).world := by rw [p1]; exact hwld
  have hrates' : ((preRun st.srv ticked ms).rates.map (·.1)).Nodup := by rw [q4, hrt]; exact hrates
  obtain ⟨u, hu, hv⟩ := frame_new_entity_values (preRun st.srv ticked ms) sinvp hrm hrates'
    (z.1, preG st.srv ms z.2) hy hmap (replay (log z.1)) m3 hh e hnew hbump ent hwld'
  refine ⟨u, hu, ?_⟩
  intro k r comp hp hplain
  exact hv k r comp (by rw [present_congr st.srv _ q4]; exact hp) hplain

end Replicon.Joint
