import Replicon.Proofs.FrameVals

/-!
# What an update message does not name it does not touch

`Untouched c c' se`: server entity `se` is mapped to the same client entity in `c'` as in `c`, and
that client entity's whole record (marker, components, confirmed tick) is the same.  Every step of
`apply_update_message` that is not about `se` leaves it untouched.
-/

namespace Replicon.Cli
open Replicon Replicon.Srv

def Untouched (c c' : Client) (se : Nat) : Prop :=
  aget c'.s2c se = aget c.s2c se ∧ ∀ ce, aget c.s2c se = some ce → aget c'.world ce = aget c.world ce

theorem wf_inj' (c : Client) (wf : WF c) (se se' ce : Nat) (h1 : aget c.s2c se = some ce) (h2 : aget c.s2c se' = some ce) :
    se = se' := wf.inj se se' ce h1 h2

theorem Untouched.refl (c : Client) (se : Nat) : Untouched c c se := ⟨rfl, fun _ _ => rfl⟩

theorem Untouched.trans {a b c : Client} {se : Nat} (h1 : Untouched a b se) (h2 : Untouched b c se) :
    Untouched a c se := by
  refine ⟨h2.1.trans h1.1, ?_⟩
  intro ce h
  have hb : aget b.s2c se = some ce := by rw [h1.1]; exact h
  rw [h2.2 ce hb, h1.2 ce h]

/-- replacing the record of another client entity -/
theorem untouched_setEnt (c c' : Client) (ce' : Nat) (ent' : CEnt) (hs : c'.s2c = c.s2c)
    (hw : c'.world = aset c.world ce' ent') (se : Nat) (hne : aget c.s2c se ≠ some ce') : Untouched c c' se := by
  refine ⟨by rw [hs], ?_⟩
  intro ce h
  rw [hw, aget_aset]
  have : ce ≠ ce' := fun e => hne (by rw [h, e])
  simp only [this, if_false]

theorem untouched_setEnt' (c : Client) (ce' : Nat) (ent' : CEnt) (se : Nat) (hne : aget c.s2c se ≠ some ce') :
    Untouched c { c with world := aset c.world ce' ent' } se :=
  untouched_setEnt c { c with world := aset c.world ce' ent' } ce' ent' rfl rfl se hne

/-- a fresh entity mapped to another (unmapped) server entity -/
theorem untouched_mapFresh (c : Client) (se0 : Nat) (ent : CEnt) (wf : WF c) (se : Nat) (hne : se ≠ se0) :
    Untouched c (mapFresh c se0 ent) se := by
  obtain ⟨f1, f2, _, _⟩ := mapFresh_fields c se0 ent
  refine ⟨by rw [f1, aget_aset]; simp only [hne, if_false], ?_⟩
  intro ce h
  rw [f2, aget_aset]
  have : ce ≠ c.next := by
    intro e
    have := wf.bound ce (wf.alive se ce h)
    rw [e] at this; exact Nat.lt_irrefl _ this
  simp only [this, if_false]

theorem untouched_getMapped (c : Client) (v : Nat) (wf : WF c) (se : Nat) (hm : (aget c.s2c se).isSome = true) :
    Untouched c (getMapped c v).1 se := by
  unfold getMapped
  cases hg : aget c.s2c v with
  | some ce => exact Untouched.refl c se
  | none =>
    show Untouched c (mapFresh c v {}) se
    apply untouched_mapFresh c v {} wf se
    intro e
    rw [e, hg] at hm; cases hm

theorem untouched_wstep (c : Client) (ce k v : Nat) (wf : WF c) (se : Nat) (hm : (aget c.s2c se).isSome = true)
    (hne : aget c.s2c se ≠ some ce) : Untouched c (wstep c ce k v) se := by
  unfold wstep
  have h1 : Untouched c (if c.entityComps.contains k then getMapped c v else (c, v)).1 se := by
    split
    · exact untouched_getMapped c v wf se hm
    · exact Untouched.refl c se
  generalize (if c.entityComps.contains k then getMapped c v else (c, v)) = p at h1 ⊢
  cases hg : aget p.1.world ce with
  | none => exact h1
  | some ent =>
    simp only
    refine h1.trans ?_
    exact untouched_setEnt' p.1 ce { ent with comps := aset ent.comps k p.2 } se (by rw [h1.1]; exact hne)

theorem untouched_writeComps (ce : Nat) (comps : List (Nat × Nat)) : ∀ (c : Client), WF c → (aget c.world ce).isSome = true →
    ∀ se, (aget c.s2c se).isSome = true → aget c.s2c se ≠ some ce → Untouched c (writeComps c ce comps) se := by
  induction comps with
  | nil => intro c _ _ se _ _; exact Untouched.refl c se
  | cons kv rest ih =>
    intro c wf hal se hm hne
    obtain ⟨k0, v0⟩ := kv
    rw [writeComps_cons]
    obtain ⟨w1, a1, s1, _⟩ := wstep_spec c ce k0 v0 wf hal
    have u1 := untouched_wstep c ce k0 v0 wf se hm hne
    refine u1.trans (ih _ w1 a1 se (by rw [u1.1]; exact hm) ?_)
    rw [u1.1]; exact hne

theorem untouched_confirm (c : Client) (ce t : Nat) (se : Nat) (hne : aget c.s2c se ≠ some ce) :
    Untouched c (confirm c ce t) se := by
  unfold confirm
  cases hg : aget c.world ce with
  | none => exact Untouched.refl c se
  | some ent => exact untouched_setEnt' c ce { ent with hist := some t } se hne

theorem untouched_targetEntity (c : Client) (se0 : Nat) (b : Bool) (wf : WF c) (c' : Client) (ce : Nat)
    (h : targetEntity c se0 b = .ok (c', ce)) (se : Nat) (hne : se ≠ se0) : Untouched c c' se := by
  unfold targetEntity at h
  cases hg : aget c.s2c se0 with
  | none =>
    rw [hg] at h
    simp only [Res.ok.injEq, Prod.mk.injEq] at h
    rw [← h.1]
    exact untouched_mapFresh c se0 { marked := true } wf se hne
  | some x =>
    rw [hg] at h
    simp only at h
    cases hw : aget c.world x with
    | none => rw [hw] at h; cases h
    | some ent =>
      rw [hw] at h
      simp only at h
      split at h
      · simp only [Res.ok.injEq, Prod.mk.injEq] at h
        rw [← h.1]
        exact untouched_setEnt' c x { ent with marked := true } se (fun hs => hne (wf.inj se se0 x hs hg))
      · simp only [Res.ok.injEq, Prod.mk.injEq] at h
        rw [← h.1]; exact Untouched.refl c se

theorem untouched_applyDespawn (c : Client) (se' : Nat) (wf : WF c) (se : Nat) (hne : se ≠ se') :
    Untouched c (applyDespawn c se') se := by
  unfold applyDespawn mapRemove
  cases hg : aget c.s2c se' with
  | none => exact Untouched.refl c se
  | some ce' =>
    simp only
    refine ⟨?_, ?_⟩
    · show aget (adel c.s2c se') se = _
      rw [aget_adel, if_neg hne]
    · intro ce h
      show aget (adel c.world ce') ce = _
      have : ce ≠ ce' := by
        intro e
        rw [e] at h
        exact hne (wf.inj se se' ce' h hg)
      rw [aget_adel, if_neg this]

theorem untouched_applyChange (tick : Nat) (c : Client) (m : MsgEnt) (wf : WF c) (c' : Client)
    (h : applyChange tick c m = some c') (se : Nat) (hm : (aget c.s2c se).isSome = true) (hne : se ≠ m.ent) :
    Untouched c c' se := by
  obtain ⟨c1, ce, h1, w1, hs, hal, _⟩ := targetEntity_kinds c m.ent true wf
  have u1 := untouched_targetEntity c m.ent true wf c1 ce h1 se hne
  have k2 := confirm_keepsK c1 ce tick w1
  have hs2 : aget (confirm c1 ce tick).s2c m.ent = some ce := k2.1.2.2.2 m.ent ce hs
  have hal2 : (aget (confirm c1 ce tick).world ce).isSome = true := by
    cases hg : aget c1.world ce with
    | none => rw [hg] at hal; cases hal
    | some ent =>
      obtain ⟨e', h', _⟩ := k2.1.2.2.1 ce ent hg
      rw [h']; rfl
  have hn1 : aget c1.s2c se ≠ some ce := fun hh => hne (wf_inj' c1 w1 se m.ent ce hh hs)
  have u2 := untouched_confirm c1 ce tick se hn1
  have hm2 : (aget (confirm c1 ce tick).s2c se).isSome = true := by rw [u2.1, u1.1]; exact hm
  have hn2 : aget (confirm c1 ce tick).s2c se ≠ some ce := by rw [u2.1]; exact hn1
  have u3 := untouched_writeComps ce m.comps (confirm c1 ce tick) k2.1.1 hal2 se hm2 hn2
  unfold applyChange at h
  rw [h1] at h
  simp only [Option.some.injEq] at h
  rw [← h]
  exact u1.trans (u2.trans u3)

theorem untouched_applyRemoval (tick : Nat) (c : Client) (r : Nat × List Nat) (wf : WF c) (c' : Client)
    (h : applyRemoval tick c r = some c') (se : Nat) (hne : se ≠ r.1) : Untouched c c' se := by
  obtain ⟨c1, ce, h1, w1, hs, hal, _⟩ := targetEntity_kinds c r.1 false wf
  have u1 := untouched_targetEntity c r.1 false wf c1 ce h1 se hne
  have k2 := confirm_keepsK c1 ce tick w1
  have hn1 : aget c1.s2c se ≠ some ce := fun hh => hne (wf_inj' c1 w1 se r.1 ce hh hs)
  have u2 := untouched_confirm c1 ce tick se hn1
  unfold applyRemoval at h
  rw [h1] at h
  simp only at h
  cases hg : aget (confirm c1 ce tick).world ce with
  | none =>
    rw [hg] at h
    simp only [Option.some.injEq] at h
    rw [← h]; exact u1.trans u2
  | some ent =>
    rw [hg] at h
    simp only [Option.some.injEq] at h
    rw [← h]
    refine u1.trans (u2.trans ?_)
    exact untouched_setEnt' (confirm c1 ce tick) ce { ent with comps := ent.comps.filter fun x => !r.2.contains x.1 } se
      (by rw [u2.1]; exact hn1)

theorem untouched_despawns : ∀ (l : List Nat) (c : Client), WF c → ∀ se, se ∉ l →
    Untouched c (l.foldl applyDespawn c) se := by
  intro l
  induction l with
  | nil => intro c _ se _; exact Untouched.refl c se
  | cons x xs ih =>
    intro c wf se hn
    rw [List.foldl_cons]
    have hx : se ≠ x := fun h => hn (by rw [h]; exact List.mem_cons_self)
    exact (untouched_applyDespawn c x wf se hx).trans
      (ih _ (applyDespawn_spec c x wf).1 se (fun h => hn (List.mem_cons_of_mem _ h)))

theorem untouched_removals (tick : Nat) (se : Nat) : ∀ (l : List (Nat × List Nat)) (c : Client), WF c →
    (∀ r ∈ l, se ≠ r.1) → Untouched c (foldOpt (applyRemoval tick) (c, false) l).1 se := by
  intro l
  induction l with
  | nil => intro c _ _; exact Untouched.refl c se
  | cons x xs ih =>
    intro c wf hno
    obtain ⟨c1, e1, w1, _⟩ := applyRemoval_kinds tick c x wf
    have hstep : foldOpt (applyRemoval tick) (c, false) (x :: xs) = foldOpt (applyRemoval tick) (c1, false) xs := by
      unfold foldOpt
      rw [List.foldl_cons]
      simp only [Bool.false_eq_true, if_false, e1]
    rw [hstep]
    exact (untouched_applyRemoval tick c x wf c1 e1 se (hno x List.mem_cons_self)).trans
      (ih c1 w1 (fun r hr => hno r (List.mem_cons_of_mem _ hr)))

theorem untouched_changes (tick : Nat) (se : Nat) : ∀ (l : List MsgEnt) (c : Client), WF c →
    (aget c.s2c se).isSome = true → (∀ m ∈ l, se ≠ m.ent) →
    Untouched c (foldOpt (applyChange tick) (c, false) l).1 se := by
  intro l
  induction l with
  | nil => intro c _ _ _; exact Untouched.refl c se
  | cons x xs ih =>
    intro c wf hm hno
    obtain ⟨c1, e1, w1, _⟩ := applyChange_kinds tick c x wf
    have hstep : foldOpt (applyChange tick) (c, false) (x :: xs) = foldOpt (applyChange tick) (c1, false) xs := by
      unfold foldOpt
      rw [List.foldl_cons]
      simp only [Bool.false_eq_true, if_false, e1]
    rw [hstep]
    have u1 := untouched_applyChange tick c x wf c1 e1 se hm (hno x List.mem_cons_self)
    exact u1.trans (ih c1 w1 (by rw [u1.1]; exact hm) (fun m hmm => hno m (List.mem_cons_of_mem _ hmm)))

/-- **`apply_update_message` does not touch an entity it does not name**: a mapped server entity
that is in none of DESPAWNS, REMOVALS and CHANGES keeps its client entity and that entity's whole
record — in particular its confirmed tick. -/
theorem applyUpdate_untouched (c : Client) (u : Update) (wf : WF c) (hm : u.mappings = []) (se : Nat)
    (hmap : (aget c.s2c se).isSome = true)
    (hd : se ∉ u.despawns) (hr : ∀ r ∈ u.removals, se ≠ r.1) (hc : ∀ m ∈ u.changes, se ≠ m.ent) :
    Untouched c (applyUpdate c u) se := by
  unfold applyUpdate
  simp only [hm, List.foldl_nil]
  have wf0 : WF { c with updateTick := u.tick } := ⟨wf.alive, wf.inj, wf.bound⟩
  have u0 : Untouched c { c with updateTick := u.tick } se := ⟨rfl, fun _ _ => rfl⟩
  obtain ⟨w1, _⟩ := despawns_spec u.despawns _ wf0
  have u1 := untouched_despawns u.despawns _ wf0 se hd
  obtain ⟨f2, w2, _, _⟩ := removals_spec u.tick u.removals _ w1
  have u2 := untouched_removals u.tick se u.removals _ w1 hr
  generalize hc2 : foldOpt (applyRemoval u.tick) (u.despawns.foldl applyDespawn { c with updateTick := u.tick }, false) u.removals = st2 at f2 w2 u2
  have hst2 : st2 = (st2.1, false) := by rw [← f2]
  have u012 := u0.trans (u1.trans u2)
  rw [hst2]
  exact u012.trans (untouched_changes u.tick se u.changes st2.1 w2 (by rw [u012.1]; exact hmap) hc)

end Replicon.Cli
