import Replicon.Model.Client
import Replicon.Proofs.Server

namespace Replicon.Cli
open Replicon Replicon.Srv

/-! ### `ServerUpdateTick` -/

theorem mapInsert_tick (c : Client) (a b : Nat) : (mapInsert c a b).updateTick = c.updateTick := by
  unfold mapInsert; rfl

theorem getMapped_tick (c : Client) (se : Nat) : (getMapped c se).1.updateTick = c.updateTick := by
  unfold getMapped
  cases aget c.s2c se with
  | some ce => rfl
  | none => simp [spawnFresh, mapInsert_tick]

theorem writeComps_tick (ce : Nat) (comps : List (Nat × Nat)) : ∀ (c : Client),
    (writeComps c ce comps).updateTick = c.updateTick := by
  unfold writeComps
  induction comps with
  | nil => intro c; rfl
  | cons x xs ih =>
    intro c
    rw [List.foldl_cons, ih]
    obtain ⟨k, v⟩ := x
    simp only
    by_cases hk : c.entityComps.contains k = true
    · simp only [hk, if_true]
      cases hw : aget (getMapped c v).1.world ce with
      | none => exact getMapped_tick c v
      | some ent => exact getMapped_tick c v
    · simp only [hk, Bool.false_eq_true, if_false]
      cases aget c.world ce <;> rfl

theorem confirm_tick (c : Client) (ce t : Nat) : (confirm c ce t).updateTick = c.updateTick := by
  unfold confirm; cases aget c.world ce <;> rfl

theorem targetEntity_tick (c : Client) (se : Nat) (b : Bool) (c' : Client) (ce : Nat)
    (h : targetEntity c se b = .ok (c', ce)) : c'.updateTick = c.updateTick := by
  unfold targetEntity at h
  cases hs : aget c.s2c se with
  | some x =>
    rw [hs] at h
    simp only at h
    cases hw : aget c.world x with
    | none => rw [hw] at h; cases h
    | some ent =>
      rw [hw] at h
      simp only at h
      split at h <;> (cases h; rfl)
  | none =>
    rw [hs] at h
    simp only [spawnFresh] at h
    cases h
    rfl

theorem applyMapping_tick (c : Client) (m : Nat × Nat) : (applyMapping c m).updateTick = c.updateTick := by
  unfold applyMapping
  cases aget c.world m.2 with
  | none => rfl
  | some ent => exact mapInsert_tick _ _ _

theorem applyDespawn_tick (c : Client) (se : Nat) : (applyDespawn c se).updateTick = c.updateTick := by
  unfold applyDespawn mapRemove
  cases aget c.s2c se <;> rfl

theorem applyRemoval_tick (t : Nat) (c : Client) (r : Nat × List Nat) (c' : Client)
    (h : applyRemoval t c r = some c') : c'.updateTick = c.updateTick := by
  unfold applyRemoval at h
  cases ht : targetEntity c r.1 false with
  | ok x =>
    obtain ⟨c1, ce⟩ := x
    rw [ht] at h
    simp only at h
    have h1 := targetEntity_tick c r.1 false c1 ce ht
    cases hw : aget (confirm c1 ce t).world ce with
    | none => rw [hw] at h; cases h; rw [confirm_tick, h1]
    | some ent => rw [hw] at h; cases h; show (confirm c1 ce t).updateTick = _; rw [confirm_tick, h1]
  | err => rw [ht] at h; cases h
  | panic s => rw [ht] at h; cases h

theorem applyChange_tick (t : Nat) (c : Client) (m : MsgEnt) (c' : Client)
    (h : applyChange t c m = some c') : c'.updateTick = c.updateTick := by
  unfold applyChange at h
  cases ht : targetEntity c m.ent true with
  | ok x =>
    obtain ⟨c1, ce⟩ := x
    rw [ht] at h
    cases h
    rw [writeComps_tick, confirm_tick, targetEntity_tick c m.ent true c1 ce ht]
  | err => rw [ht] at h; cases h
  | panic s => rw [ht] at h; cases h

theorem foldOpt_tick {α : Type} (f : Client → α → Option Client)
    (hf : ∀ c x c', f c x = some c' → c'.updateTick = c.updateTick) :
    ∀ (xs : List α) (st : Client × Bool), (foldOpt f st xs).1.updateTick = st.1.updateTick := by
  intro xs
  unfold foldOpt
  induction xs with
  | nil => intro st; rfl
  | cons x xs ih =>
    intro st
    rw [List.foldl_cons, ih]
    by_cases hb : st.2 = true
    · simp [hb]
    · simp only [hb, Bool.false_eq_true, if_false]
      cases hfx : f st.1 x with
      | none => rfl
      | some c' => exact hf _ _ _ hfx

theorem foldl_tick {α : Type} (f : Client → α → Client) (hf : ∀ c x, (f c x).updateTick = c.updateTick) :
    ∀ (xs : List α) (c : Client), (xs.foldl f c).updateTick = c.updateTick := by
  intro xs
  induction xs with
  | nil => intro c; rfl
  | cons x xs ih => intro c; rw [List.foldl_cons, ih, hf]

/-- Applying an update message sets `ServerUpdateTick` to the message's tick (and nothing
else in the message touches it). -/
theorem applyUpdate_tick (c : Client) (u : Update) : (applyUpdate c u).updateTick = u.tick := by
  unfold applyUpdate
  simp only
  rw [foldOpt_tick _ (applyChange_tick u.tick), foldOpt_tick _ (applyRemoval_tick u.tick),
    foldl_tick _ applyDespawn_tick, foldl_tick _ applyMapping_tick]

/-- update messages arriving in server order: ticks do not decrease and none is older than
what the client already has -/
def Ordered : Nat → List Update → Prop
  | _, [] => True
  | t, u :: us => t ≤ u.tick ∧ Ordered u.tick us

theorem applyUpdates_monotone : ∀ (us : List Update) (c : Client), Ordered c.updateTick us →
    c.updateTick ≤ (us.foldl applyUpdate c).updateTick := by
  intro us
  induction us with
  | nil => intro c _; exact Nat.le_refl _
  | cons u us ih =>
    intro c h
    obtain ⟨h1, h2⟩ := h
    rw [List.foldl_cons]
    have ht := applyUpdate_tick c u
    have := ih (applyUpdate c u) (by rw [ht]; exact h2)
    omega

/-! ### mutate messages -/

theorem bufferInsert_tick : True := trivial

/-- `applyMutEnt` touches an entity either completely — confirmed tick raised to the message's
tick and every component of the record written — or not at all. -/
theorem applyMutEnt_atomic (c : Client) (tick : Nat) (m : MsgEnt) (c' : Client)
    (h : applyMutEnt c tick m = .ok c') :
    c' = c ∨ ∃ ce last, aget c.s2c m.ent = some ce ∧ (∃ ent, aget c.world ce = some ent ∧ ent.hist = some last) ∧
      last < tick ∧ c' = writeComps (confirm c ce tick) ce m.comps := by
  unfold applyMutEnt at h
  cases hs : aget c.s2c m.ent with
  | none => rw [hs] at h; cases h; left; rfl
  | some ce =>
    rw [hs] at h
    simp only at h
    cases hw : aget c.world ce with
    | none => rw [hw] at h; cases h
    | some ent =>
      rw [hw] at h
      simp only at h
      cases hh : ent.hist with
      | none => rw [hh] at h; cases h
      | some last =>
        rw [hh] at h
        simp only at h
        by_cases ht : tick > last
        · rw [if_pos ht] at h
          cases h
          right
          exact ⟨ce, last, rfl, ⟨ent, hw, hh⟩, ht, rfl⟩
        · rw [if_neg ht] at h; cases h; left; rfl

/-! ### fields that applying records never touches -/

/-- `c'` differs from `c` only in the world / entity map / id counter -/
def Same (c c' : Client) : Prop :=
  c'.acks = c.acks ∧ c'.buffered = c.buffered ∧ c'.updateTick = c.updateTick ∧ c'.connected = c.connected ∧
  c'.notified = c.notified ∧ c'.mutTicks = c.mutTicks

theorem Same.refl (c : Client) : Same c c := ⟨rfl, rfl, rfl, rfl, rfl, rfl⟩
theorem Same.trans {a b c : Client} (h1 : Same a b) (h2 : Same b c) : Same a c :=
  ⟨h2.1.trans h1.1, h2.2.1.trans h1.2.1, h2.2.2.1.trans h1.2.2.1, h2.2.2.2.1.trans h1.2.2.2.1,
   h2.2.2.2.2.1.trans h1.2.2.2.2.1, h2.2.2.2.2.2.trans h1.2.2.2.2.2⟩

theorem getMapped_same (c : Client) (se : Nat) : Same c (getMapped c se).1 := by
  unfold getMapped
  cases aget c.s2c se with
  | some ce => exact Same.refl c
  | none => exact ⟨rfl, rfl, rfl, rfl, rfl, rfl⟩

theorem confirm_same (c : Client) (ce t : Nat) : Same c (confirm c ce t) := by
  unfold confirm; cases aget c.world ce <;> exact ⟨rfl, rfl, rfl, rfl, rfl, rfl⟩

theorem writeComps_same (ce : Nat) (comps : List (Nat × Nat)) : ∀ (c : Client), Same c (writeComps c ce comps) := by
  unfold writeComps
  induction comps with
  | nil => intro c; exact Same.refl c
  | cons x xs ih =>
    intro c
    rw [List.foldl_cons]
    refine Same.trans ?_ (ih _)
    obtain ⟨k, v⟩ := x
    simp only
    by_cases hk : c.entityComps.contains k = true
    · simp only [hk, if_true]
      cases hw : aget (getMapped c v).1.world ce with
      | none => exact getMapped_same c v
      | some ent => exact Same.trans (getMapped_same c v) ⟨rfl, rfl, rfl, rfl, rfl, rfl⟩
    · simp only [hk, Bool.false_eq_true, if_false]
      cases aget c.world ce <;> exact ⟨rfl, rfl, rfl, rfl, rfl, rfl⟩

theorem applyMutEnt_same (c : Client) (tick : Nat) (m : MsgEnt) (c' : Client)
    (h : applyMutEnt c tick m = .ok c') : Same c c' := by
  rcases applyMutEnt_atomic c tick m c' h with h0 | ⟨ce, last, _, _, _, h0⟩
  · rw [h0]; exact Same.refl c
  · rw [h0]; exact Same.trans (confirm_same c ce tick) (writeComps_same ce m.comps _)

theorem applyMutate_same (c : Client) (m : Mutate) : Same c (applyMutate c m) := by
  unfold applyMutate
  generalize m.ents = es
  suffices ∀ (acc : Client × Bool), Same c acc.1 →
      Same c (es.foldl (fun (acc : Client × Bool) e =>
        if acc.2 then acc else
        match applyMutEnt acc.1 m.tick e with
        | .ok c' => (c', false)
        | _ => (acc.1, true)) acc).1 from this (c, false) (Same.refl c)
  induction es with
  | nil => intro acc h; exact h
  | cons e es ih =>
    intro acc h
    rw [List.foldl_cons]
    apply ih
    by_cases hb : acc.2 = true
    · simp only [hb, if_true]; exact h
    · simp only [hb, Bool.false_eq_true, if_false]
      cases hr : applyMutEnt acc.1 m.tick e with
      | ok c' => exact Same.trans h (applyMutEnt_same acc.1 m.tick e c' hr)
      | err => exact h
      | panic _ => exact h

theorem applyMutates_same : ∀ (l : List Mutate) (c : Client), Same c (l.foldl applyMutate c) := by
  intro l
  induction l with
  | nil => intro c; exact Same.refl c
  | cons x xs ih => intro c; rw [List.foldl_cons]; exact Same.trans (applyMutate_same c x) (ih _)

/-- the tracking step touches only the tracker and the list of reported ticks -/
theorem trackOne_keeps (c : Client) (m : Mutate) :
    (trackOne c m).acks = c.acks ∧ (trackOne c m).buffered = c.buffered ∧ (trackOne c m).updateTick = c.updateTick ∧
    (trackOne c m).world = c.world ∧ (trackOne c m).s2c = c.s2c ∧ (trackOne c m).c2s = c.c2s ∧ (trackOne c m).next = c.next := by
  unfold trackOne
  cases c.mutTicks with
  | none => exact ⟨rfl, rfl, rfl, rfl, rfl, rfl, rfl⟩
  | some s =>
    simp only
    cases s.confirm m.tick m.count with
    | ok r => exact ⟨rfl, rfl, rfl, rfl, rfl, rfl, rfl⟩
    | err => exact ⟨rfl, rfl, rfl, rfl, rfl, rfl, rfl⟩
    | panic _ => exact ⟨rfl, rfl, rfl, rfl, rfl, rfl, rfl⟩

theorem trackAll_keeps : ∀ (l : List Mutate) (c : Client),
    (l.foldl trackOne c).acks = c.acks ∧ (l.foldl trackOne c).buffered = c.buffered := by
  intro l
  induction l with
  | nil => intro c; exact ⟨rfl, rfl⟩
  | cons x xs ih =>
    intro c
    rw [List.foldl_cons]
    obtain ⟨h1, h2⟩ := ih (trackOne c x)
    obtain ⟨k1, k2, _⟩ := trackOne_keeps c x
    exact ⟨h1.trans k1, h2.trans k2⟩

/-- After the F1 repair: a frame acknowledges exactly the mutate messages it applies (those
whose update tick the client has reached), and keeps the others buffered, unacknowledged. -/
theorem applyBuffered_acks (c : Client) :
    (applyBuffered c).acks = c.acks ++ ((c.buffered.filter fun m => !(m.updateTick > c.updateTick)).map (·.index)) ∧
    (applyBuffered c).buffered = c.buffered.filter fun m => m.updateTick > c.updateTick := by
  unfold applyBuffered
  simp only
  have h := applyMutates_same (c.buffered.filter fun m => !(m.updateTick > c.updateTick))
    { c with buffered := c.buffered.filter fun m => m.updateTick > c.updateTick }
  have h' := trackAll_keeps (c.buffered.filter fun m => !(m.updateTick > c.updateTick))
    ((c.buffered.filter fun m => !(m.updateTick > c.updateTick)).foldl applyMutate
      { c with buffered := c.buffered.filter fun m => m.updateTick > c.updateTick })
  obtain ⟨h1, h2, _⟩ := h
  exact ⟨by rw [h'.1, h1], by rw [h'.2, h2]⟩

/-! ### pre-spawned entities -/

/-- `apply_entity_mapping` with the pre-spawned entity alive: the server entity is mapped to
it and it carries the replication marker. -/
theorem applyMapping_adopts (c : Client) (se p : Nat) (ent : CEnt) (h : aget c.world p = some ent) :
    aget (applyMapping c (se, p)).s2c se = some p ∧
    aget (applyMapping c (se, p)).world p = some { ent with marked := true } ∧
    (applyMapping c (se, p)).next = c.next := by
  unfold applyMapping
  simp only [h]
  unfold mapInsert
  refine ⟨aget_aset_same _ _ _, aget_aset_same _ _ _, ?_⟩
  rfl

/-- … and with the pre-spawned entity gone the mapping is ignored. -/
theorem applyMapping_gone (c : Client) (se p : Nat) (h : aget c.world p = none) :
    applyMapping c (se, p) = c := by
  unfold applyMapping; simp only [h]

/-- A record for a mapped server entity lands on the mapped client entity: no entity is
created and the map is not touched. -/
theorem targetEntity_mapped (c : Client) (se ce : Nat) (b : Bool) (ent : CEnt)
    (hs : aget c.s2c se = some ce) (hw : aget c.world ce = some ent) :
    ∃ c', targetEntity c se b = .ok (c', ce) ∧ c'.next = c.next ∧ c'.s2c = c.s2c ∧ c'.c2s = c.c2s := by
  unfold targetEntity
  simp only [hs, hw]
  split
  · exact ⟨_, rfl, rfl, rfl, rfl⟩
  · exact ⟨_, rfl, rfl, rfl, rfl⟩

/-- A record for an unmapped server entity spawns exactly one fresh, marked entity and maps it. -/
theorem targetEntity_fresh (c : Client) (se : Nat) (b : Bool) (hs : aget c.s2c se = none) :
    ∃ c', targetEntity c se b = .ok (c', c.next) ∧ c'.next = c.next + 1 ∧
      aget c'.s2c se = some c.next ∧ aget c'.world c.next = some { marked := true } := by
  unfold targetEntity
  simp only [hs, spawnFresh]
  refine ⟨_, rfl, rfl, ?_, ?_⟩
  · unfold mapInsert; simp only [hs]; exact aget_aset_same _ _ _
  · unfold mapInsert; simp only; exact aget_aset_same _ _ _

/-- The entity a CHANGES record lands on carries the replication marker (also when it existed
before only as the target of a reference — F8 repair). -/
theorem targetEntity_marks (c : Client) (se : Nat) (c' : Client) (ce : Nat)
    (h : targetEntity c se true = .ok (c', ce)) :
    ∃ ent, aget c'.world ce = some ent ∧ ent.marked = true := by
  unfold targetEntity at h
  cases hs : aget c.s2c se with
  | some x =>
    rw [hs] at h
    simp only at h
    cases hw : aget c.world x with
    | none => rw [hw] at h; cases h
    | some ent =>
      rw [hw] at h
      simp only at h
      by_cases hm : ent.marked = true
      · simp only [hm, Bool.not_true, Bool.and_false, Bool.false_eq_true, if_false] at h
        cases h
        exact ⟨ent, hw, hm⟩
      · simp only [hm, Bool.not_false, Bool.and_true, if_true] at h
        cases h
        exact ⟨{ ent with marked := true }, aget_aset_same _ _ _, rfl⟩
  | none =>
    rw [hs] at h
    simp only [spawnFresh] at h
    cases h
    refine ⟨{ marked := true }, ?_, rfl⟩
    unfold mapInsert
    exact aget_aset_same _ _ _

/-- A mutate record never lowers an entity's confirmed tick and never touches other entities'
confirmation: it either changes nothing or raises exactly this entity's tick. -/
theorem confirm_hist (c : Client) (ce t : Nat) (ent : CEnt) (h : aget c.world ce = some ent) :
    aget (confirm c ce t).world ce = some { ent with hist := some t } := by
  unfold confirm
  rw [h]
  exact aget_aset_same _ _ _

/-! ### session end -/

/-- In the first frame after the session ended the client's protocol state is that of a fresh
client: update tick, both directions of the entity map and the buffered mutate messages are
gone, nothing is acknowledged, and nothing of the old session is applied. -/
theorem frame_after_disconnect (c : Client) (us : List Update) (ms : List Mutate)
    (h1 : c.lastNotDisconnected = true) (h2 : c.connected = false) :
    let c' := frame c us ms
    c'.updateTick = 0 ∧ c'.s2c = [] ∧ c'.c2s = [] ∧ c'.buffered = [] ∧ c'.acks = [] ∧ c'.world = c.world := by
  unfold frame
  simp [h1, h2]

end Replicon.Cli
