import Replicon.Proofs.KindsSession
/-
The client half of "which components": what `apply_update_message` does to the set of component
kinds the client has for a server entity is `stepKinds` (a despawn forgets them, a removal record
removes its kinds, a change record adds its kinds).
-/
set_option maxHeartbeats 400000
set_option linter.unusedSimpArgs false
namespace Replicon.Cli
open Replicon Replicon.Srv

/-- the component kinds the client has on the entity that stands for server entity `se` -/
def kindsOn (c : Client) (se : Nat) : List Nat :=
  match aget c.s2c se with
  | some ce => (match aget c.world ce with
    | some ent => ent.comps.map (·.1)
    | none => [])
  | none => []

/-- nothing changed for any server entity's kinds (and `Keeps`) -/
def KeepsK (c c' : Client) : Prop := Keeps c c' ∧ ∀ se k, k ∈ kindsOn c' se ↔ k ∈ kindsOn c se

theorem KeepsK.refl (c : Client) (wf : WF c) : KeepsK c c := ⟨Keeps.refl c wf, fun _ _ => Iff.rfl⟩

theorem KeepsK.trans {a b c : Client} (h1 : KeepsK a b) (h2 : KeepsK b c) : KeepsK a c :=
  ⟨Keeps.trans h1.1 h2.1, fun se k => (h2.2 se k).trans (h1.2 se k)⟩

theorem kindsOn_mapFresh (c : Client) (se : Nat) (ent : CEnt) (wf : WF c) (se' k : Nat) :
    k ∈ kindsOn (mapFresh c se ent) se' ↔ (if se' = se then k ∈ ent.comps.map (·.1) else k ∈ kindsOn c se') := by
  obtain ⟨f1, f2, _, _⟩ := mapFresh_fields c se ent
  unfold kindsOn
  rw [f1, f2, aget_aset]
  by_cases he : se' = se
  · simp only [he, if_true]
    rw [aget_aset]; simp only [if_true]
  · simp only [he, if_false]
    cases hg : aget c.s2c se' with
    | none => exact Iff.rfl
    | some ce =>
      simp only
      have : ce ≠ c.next := by
        intro h
        have := wf.bound ce (wf.alive se' ce hg)
        rw [h] at this; exact Nat.lt_irrefl _ this
      rw [aget_aset]; simp only [this, if_false]

theorem getMapped_keepsK (c : Client) (se : Nat) (wf : WF c) : KeepsK c (getMapped c se).1 := by
  refine ⟨getMapped_keeps c se wf, ?_⟩
  intro se' k
  unfold getMapped
  cases hg : aget c.s2c se with
  | some ce => exact Iff.rfl
  | none =>
    show k ∈ kindsOn (mapFresh c se {}) se' ↔ _
    rw [kindsOn_mapFresh c se {} wf]
    by_cases he : se' = se
    · simp only [he, if_true]
      unfold kindsOn; rw [hg]
      exact Iff.rfl
    · simp only [he, if_false]

/-- replacing the record of a live client entity: the kinds of the server entity mapped to it
become those of the new record, all others stay -/
theorem kindsOn_setEnt (c c' : Client) (ce : Nat) (ent' : CEnt)
    (hs : c'.s2c = c.s2c) (hw : c'.world = aset c.world ce ent') (se k : Nat) :
    k ∈ kindsOn c' se ↔ (if aget c.s2c se = some ce then k ∈ ent'.comps.map (·.1) else k ∈ kindsOn c se) := by
  unfold kindsOn
  rw [hs, hw]
  cases hg : aget c.s2c se with
  | none => simp
  | some x =>
    simp only
    rw [aget_aset]
    by_cases hx : x = ce
    · simp only [hx, if_true]
    · simp only [hx, if_false]
      have : ¬ (some x = some ce) := by intro h; exact hx (Option.some.inj h)
      simp only [this, if_false]

theorem confirm_keepsK (c : Client) (ce t : Nat) (wf : WF c) : KeepsK c (confirm c ce t) := by
  refine ⟨confirm_keeps c ce t wf, ?_⟩
  intro se k
  unfold confirm
  cases hg : aget c.world ce with
  | none => exact Iff.rfl
  | some ent =>
    simp only
    rw [kindsOn_setEnt c ({ c with world := aset c.world ce { ent with hist := some t } } : Client) ce
      { ent with hist := some t } rfl rfl se k]
    split
    · rename_i hm
      unfold kindsOn
      rw [hm]; simp only [hg]
    · exact Iff.rfl

end Replicon.Cli

namespace Replicon.Cli
open Replicon Replicon.Srv

theorem getMapped_s2c_iff (c : Client) (v : Nat) (wf : WF c) (se ce : Nat) (hal : (aget c.world ce).isSome = true) :
    aget (getMapped c v).1.s2c se = some ce ↔ aget c.s2c se = some ce := by
  unfold getMapped
  cases hg : aget c.s2c v with
  | some x => exact Iff.rfl
  | none =>
    show aget (mapFresh c v {}).s2c se = some ce ↔ _
    rw [(mapFresh_fields c v {}).1, aget_aset]
    by_cases he : se = v
    · simp only [he, if_true, hg]
      constructor
      · intro h
        simp only [Option.some.injEq] at h
        have := wf.bound ce hal
        rw [← h] at this; exact absurd this (Nat.lt_irrefl _)
      · intro h; cases h
    · simp only [he, if_false]

theorem mem_kinds_aset (comps : List (Nat × Nat)) (k v j : Nat) :
    j ∈ (aset comps k v).map (·.1) ↔ j = k ∨ j ∈ comps.map (·.1) :=
  mem_map_fst_aset comps k v j

/-- one component of `writeComps` -/
def wstep (c : Client) (ce k v : Nat) : Client :=
  match aget (if c.entityComps.contains k then getMapped c v else (c, v)).1.world ce with
  | some ent =>
    { (if c.entityComps.contains k then getMapped c v else (c, v)).1 with
      world := aset (if c.entityComps.contains k then getMapped c v else (c, v)).1.world ce
        { ent with comps := aset ent.comps k (if c.entityComps.contains k then getMapped c v else (c, v)).2 } }
  | none => (if c.entityComps.contains k then getMapped c v else (c, v)).1

theorem writeComps_cons (c : Client) (ce k v : Nat) (rest : List (Nat × Nat)) :
    writeComps c ce ((k, v) :: rest) = writeComps (wstep c ce k v) ce rest := by
  unfold writeComps wstep
  rw [List.foldl_cons]
  congr 1

theorem wstep_spec (c : Client) (ce k0 v0 : Nat) (wf : WF c) (hal : (aget c.world ce).isSome = true) :
    WF (wstep c ce k0 v0) ∧ (aget (wstep c ce k0 v0).world ce).isSome = true ∧
    (∀ se, aget (wstep c ce k0 v0).s2c se = some ce ↔ aget c.s2c se = some ce) ∧
    (∀ se k, k ∈ kindsOn (wstep c ce k0 v0) se ↔
      k ∈ kindsOn c se ∨ (aget c.s2c se = some ce ∧ k = k0)) := by
  unfold wstep
  have hp1 : KeepsK c (if c.entityComps.contains k0 then getMapped c v0 else (c, v0)).1 := by
    split
    · exact getMapped_keepsK c v0 wf
    · exact KeepsK.refl c wf
  have hs1 : ∀ se', aget (if c.entityComps.contains k0 then getMapped c v0 else (c, v0)).1.s2c se' = some ce ↔
      aget c.s2c se' = some ce := by
    intro se'
    split
    · exact getMapped_s2c_iff c v0 wf se' ce hal
    · exact Iff.rfl
  generalize (if c.entityComps.contains k0 then getMapped c v0 else (c, v0)) = p at hp1 hs1 ⊢
  have hal1 : (aget p.1.world ce).isSome = true := by
    cases hg : aget c.world ce with
    | none => rw [hg] at hal; cases hal
    | some ent =>
      obtain ⟨e', h', _⟩ := hp1.1.2.2.1 ce ent hg
      rw [h']; rfl
  cases hg1 : aget p.1.world ce with
  | none => rw [hg1] at hal1; cases hal1
  | some ent1 =>
    simp only
    have k2 := setEnt_keeps' p.1 ce ent1 hp1.1.1 hg1
      { p.1 with world := aset p.1.world ce { ent1 with comps := aset ent1.comps k0 p.2 } } ⟨rfl, rfl, _, rfl, rfl⟩
    refine ⟨k2.1, ?_, ?_, ?_⟩
    · show (aget (aset p.1.world ce _) ce).isSome = true
      rw [aget_aset]; simp
    · intro se; exact hs1 se
    · intro se k
      refine (kindsOn_setEnt p.1 ({ p.1 with world := aset p.1.world ce { ent1 with comps := aset ent1.comps k0 p.2 } } : Client)
        ce { ent1 with comps := aset ent1.comps k0 p.2 } rfl rfl se k).trans ?_
      by_cases hm : aget p.1.s2c se = some ce
      · have hm' := (hs1 se).mp hm
        simp only [hm, if_true, hm', true_and]
        rw [mem_kinds_aset]
        have hk1 : k ∈ ent1.comps.map (·.1) ↔ k ∈ kindsOn c se := by
          rw [← hp1.2 se k]
          unfold kindsOn
          rw [hm]; simp only [hg1]
        rw [hk1]
        constructor
        · rintro (h | h)
          · exact Or.inr h
          · exact Or.inl h
        · rintro (h | h)
          · exact Or.inr h
          · exact Or.inl h
      · have hm' : ¬ aget c.s2c se = some ce := fun h => hm ((hs1 se).mpr h)
        simp only [hm, if_false, hm', false_and, or_false]
        exact hp1.2 se k

/-- `writeComps` on a live client entity `ce`: the server entity mapped to `ce` gains the kinds
written, every other server entity keeps its kinds -/
theorem writeComps_kinds (ce : Nat) (comps : List (Nat × Nat)) : ∀ (c : Client), WF c → (aget c.world ce).isSome = true →
    ∀ se k, k ∈ kindsOn (writeComps c ce comps) se ↔
      k ∈ kindsOn c se ∨ (aget c.s2c se = some ce ∧ k ∈ comps.map (·.1)) := by
  induction comps with
  | nil => intro c _ _ se k; unfold writeComps; simp
  | cons kv rest ih =>
    intro c wf hal se k
    obtain ⟨k0, v0⟩ := kv
    rw [writeComps_cons]
    obtain ⟨w1, a1, s1, h1⟩ := wstep_spec c ce k0 v0 wf hal
    rw [ih _ w1 a1 se k, h1 se k, s1 se]
    simp only [List.map_cons, List.mem_cons]
    constructor
    · rintro ((h | ⟨h, h'⟩) | ⟨h, h'⟩)
      · exact Or.inl h
      · exact Or.inr ⟨h, Or.inl h'⟩
      · exact Or.inr ⟨h, Or.inr h'⟩
    · rintro (h | ⟨h, h' | h'⟩)
      · exact Or.inl (Or.inl h)
      · exact Or.inl (Or.inr ⟨h, h'⟩)
      · exact Or.inr ⟨h, h'⟩

end Replicon.Cli

namespace Replicon.Cli
open Replicon Replicon.Srv

theorem kindsOn_unmapped (c : Client) (se : Nat) (h : aget c.s2c se = none) : kindsOn c se = [] := by
  unfold kindsOn; rw [h]

/-- `targetEntity` changes no server entity's kinds; it returns the live client entity the server
entity is mapped to afterwards -/
theorem targetEntity_kinds (c : Client) (se : Nat) (b : Bool) (wf : WF c) :
    ∃ c' ce, targetEntity c se b = .ok (c', ce) ∧ WF c' ∧ aget c'.s2c se = some ce ∧
      (aget c'.world ce).isSome = true ∧ ∀ se' k, k ∈ kindsOn c' se' ↔ k ∈ kindsOn c se' := by
  unfold targetEntity
  cases hg : aget c.s2c se with
  | none =>
    obtain ⟨w, m1, m2, _⟩ := mapFresh_spec c se { marked := true } wf hg
    refine ⟨mapFresh c se { marked := true }, c.next, rfl, w, m1, by rw [m2]; rfl, ?_⟩
    intro se' k
    rw [kindsOn_mapFresh c se { marked := true } wf]
    by_cases he : se' = se
    · simp only [he, if_true]
      rw [kindsOn_unmapped c se hg]
      exact Iff.rfl
    · simp only [he, if_false]
  | some ce =>
    simp only
    have hal := wf.alive se ce hg
    cases hw : aget c.world ce with
    | none => rw [hw] at hal; cases hal
    | some ent =>
      simp only
      by_cases hcond : (b && !ent.marked) = true
      · simp only [hcond, if_true]
        have wf' : WF ({ c with world := aset c.world ce { ent with marked := true } } : Client) := by
          refine ⟨?_, ?_, ?_⟩
          · intro a x hx
            show (aget (aset c.world ce { ent with marked := true }) x).isSome = true
            rw [aget_aset]
            split
            · rfl
            · exact wf.alive a x hx
          · intro a a' x h1 h2; exact wf.inj a a' x h1 h2
          · intro x hx
            show x < c.next
            have hx' : (aget (aset c.world ce { ent with marked := true }) x).isSome = true := hx
            rw [aget_aset] at hx'
            split at hx'
            · rename_i he; rw [he]; exact wf.bound ce (by rw [hw]; rfl)
            · exact wf.bound x hx'
        refine ⟨_, ce, rfl, wf', hg, ?_, ?_⟩
        · show (aget (aset c.world ce _) ce).isSome = true
          rw [aget_aset]; simp
        · intro se' k
          refine (kindsOn_setEnt c ({ c with world := aset c.world ce { ent with marked := true } } : Client) ce
            { ent with marked := true } rfl rfl se' k).trans ?_
          split
          · rename_i hm
            unfold kindsOn
            rw [hm]; simp only [hw]
          · exact Iff.rfl
      · simp only [hcond, Bool.false_eq_true, if_false]
        exact ⟨c, ce, rfl, wf, hg, by rw [hw]; rfl, fun _ _ => Iff.rfl⟩

end Replicon.Cli

namespace Replicon.Cli
open Replicon Replicon.Srv

theorem s2c_eq_iff (c : Client) (wf : WF c) (se ce : Nat) (h : aget c.s2c se = some ce) (se' : Nat) :
    aget c.s2c se' = some ce ↔ se' = se :=
  ⟨fun h' => wf.inj se' se ce h' h, fun h' => by rw [h']; exact h⟩

/-- `apply_changes` for one record: the record's entity gains the record's kinds -/
theorem applyChange_kinds (tick : Nat) (c : Client) (m : MsgEnt) (wf : WF c) :
    ∃ c', applyChange tick c m = some c' ∧ WF c' ∧
      ∀ se k, k ∈ kindsOn c' se ↔ k ∈ kindsOn c se ∨ (se = m.ent ∧ k ∈ m.comps.map (·.1)) := by
  obtain ⟨c1, ce, h1, w1, hs, hal, hk⟩ := targetEntity_kinds c m.ent true wf
  have k2 := confirm_keepsK c1 ce tick w1
  have hs2 : aget (confirm c1 ce tick).s2c m.ent = some ce := k2.1.2.2.2 m.ent ce hs
  have hal2 : (aget (confirm c1 ce tick).world ce).isSome = true := by
    cases hg : aget c1.world ce with
    | none => rw [hg] at hal; cases hal
    | some ent =>
      obtain ⟨e', h', _⟩ := k2.1.2.2.1 ce ent hg
      rw [h']; rfl
  have k3 := writeComps_keeps ce m.comps (confirm c1 ce tick) k2.1.1
  refine ⟨writeComps (confirm c1 ce tick) ce m.comps, by unfold applyChange; rw [h1], k3.1, ?_⟩
  intro se k
  rw [writeComps_kinds ce m.comps (confirm c1 ce tick) k2.1.1 hal2 se k, k2.2 se k, hk se k,
    s2c_eq_iff (confirm c1 ce tick) k2.1.1 m.ent ce hs2 se]

/-- `apply_removals` for one record: the record's entity loses the record's kinds -/
theorem applyRemoval_kinds (tick : Nat) (c : Client) (r : Nat × List Nat) (wf : WF c) :
    ∃ c', applyRemoval tick c r = some c' ∧ WF c' ∧
      ∀ se k, k ∈ kindsOn c' se ↔ k ∈ kindsOn c se ∧ (se = r.1 → k ∉ r.2) := by
  obtain ⟨c1, ce, h1, w1, hs, hal, hk⟩ := targetEntity_kinds c r.1 false wf
  have k2 := confirm_keepsK c1 ce tick w1
  have hs2 : aget (confirm c1 ce tick).s2c r.1 = some ce := k2.1.2.2.2 r.1 ce hs
  have hal2 : (aget (confirm c1 ce tick).world ce).isSome = true := by
    cases hg : aget c1.world ce with
    | none => rw [hg] at hal; cases hal
    | some ent =>
      obtain ⟨e', h', _⟩ := k2.1.2.2.1 ce ent hg
      rw [h']; rfl
  unfold applyRemoval
  rw [h1]
  simp only
  cases hg : aget (confirm c1 ce tick).world ce with
  | none => rw [hg] at hal2; cases hal2
  | some ent =>
    simp only
    let ent2 : CEnt := { ent with comps := ent.comps.filter (fun x => !r.2.contains x.1) }
    let c2 : Client := { confirm c1 ce tick with world := aset (confirm c1 ce tick).world ce ent2 }
    have k3 : Keeps (confirm c1 ce tick) c2 :=
      setEnt_keeps' (confirm c1 ce tick) ce ent k2.1.1 hg c2 ⟨rfl, rfl, ent2, rfl, rfl⟩
    refine ⟨c2, rfl, k3.1, ?_⟩
    intro se k
    refine (kindsOn_setEnt (confirm c1 ce tick) c2 ce ent2 rfl rfl se k).trans ?_
    have hiff := s2c_eq_iff (confirm c1 ce tick) k2.1.1 r.1 ce hs2 se
    by_cases he : se = r.1
    · have hm : aget (confirm c1 ce tick).s2c se = some ce := hiff.mpr he
      rw [if_pos hm]
      simp only [he, true_implies]
      have hkk : k ∈ kindsOn c r.1 ↔ k ∈ ent.comps.map (·.1) := by
        rw [← hk r.1 k, ← k2.2 r.1 k]
        unfold kindsOn
        rw [hs2]; simp only [hg]
      rw [hkk]
      show k ∈ (ent.comps.filter (fun x => !r.2.contains x.1)).map (·.1) ↔ _
      simp only [List.mem_map, List.mem_filter, Bool.not_eq_true', List.contains_eq_mem, decide_eq_false_iff_not]
      constructor
      · rintro ⟨x, ⟨hx, hn⟩, rfl⟩; exact ⟨⟨x, hx, rfl⟩, hn⟩
      · rintro ⟨⟨x, hx, rfl⟩, hn⟩; exact ⟨x, ⟨hx, hn⟩, rfl⟩
    · have hm : ¬ aget (confirm c1 ce tick).s2c se = some ce := fun h => he (hiff.mp h)
      simp only [hm, if_false, he, false_implies, and_true]
      rw [k2.2 se k, hk se k]

/-- `apply_despawn`: the entity has no kinds afterwards, the others keep theirs -/
theorem applyDespawn_kinds (c : Client) (se0 : Nat) (wf : WF c) (se k : Nat) :
    k ∈ kindsOn (applyDespawn c se0) se ↔ k ∈ kindsOn c se ∧ se ≠ se0 := by
  unfold applyDespawn mapRemove
  cases hg : aget c.s2c se0 with
  | none =>
    simp only
    constructor
    · intro h
      refine ⟨h, ?_⟩
      intro he
      rw [he, kindsOn_unmapped c se0 hg] at h; cases h
    · intro h; exact h.1
  | some ce =>
    simp only
    unfold kindsOn
    show k ∈ (match aget (adel c.s2c se0) se with
      | some x => (match aget (adel c.world ce) x with
        | some ent => ent.comps.map (fun (y : Nat × Nat) => y.1)
        | none => [])
      | none => []) ↔ _
    rw [aget_adel]
    by_cases he : se = se0
    · simp only [he, if_true]
      constructor
      · intro h; cases h
      · intro h; exact absurd rfl h.2
    · simp only [he, if_false]
      cases hx : aget c.s2c se with
      | none => simp
      | some x =>
        simp only
        have hne : x ≠ ce := by
          intro h
          rw [h] at hx
          exact he (wf.inj se se0 ce hx hg)
        rw [aget_adel]; simp only [hne, if_false]
        constructor
        · intro h; exact ⟨h, he⟩
        · intro h; exact h.1

end Replicon.Cli

namespace Replicon.Cli
open Replicon Replicon.Srv

theorem despawns_kinds : ∀ (l : List Nat) (c : Client), WF c → ∀ se k,
    k ∈ kindsOn (l.foldl applyDespawn c) se ↔ k ∈ kindsOn c se ∧ se ∉ l := by
  intro l
  induction l with
  | nil => intro c _ se k; simp
  | cons x xs ih =>
    intro c wf se k
    rw [List.foldl_cons, ih _ (applyDespawn_spec c x wf).1 se k, applyDespawn_kinds c x wf se k]
    simp only [List.mem_cons, not_or]
    constructor
    · rintro ⟨⟨a, b⟩, d⟩; exact ⟨a, b, d⟩
    · rintro ⟨a, b, d⟩; exact ⟨⟨a, b⟩, d⟩

theorem removals_kinds (tick : Nat) : ∀ (l : List (Nat × List Nat)) (c : Client), WF c → ∀ se k,
    k ∈ kindsOn (foldOpt (applyRemoval tick) (c, false) l).1 se ↔
      k ∈ kindsOn c se ∧ ∀ r ∈ l, r.1 = se → k ∉ r.2 := by
  intro l
  induction l with
  | nil => intro c _ se k; show k ∈ kindsOn c se ↔ _; simp
  | cons x xs ih =>
    intro c wf se k
    obtain ⟨c1, e1, w1, a1⟩ := applyRemoval_kinds tick c x wf
    have hstep : foldOpt (applyRemoval tick) (c, false) (x :: xs) = foldOpt (applyRemoval tick) (c1, false) xs := by
      unfold foldOpt
      rw [List.foldl_cons]
      simp only [Bool.false_eq_true, if_false, e1]
    rw [hstep, ih c1 w1 se k, a1 se k]
    simp only [List.mem_cons, forall_eq_or_imp]
    constructor
    · rintro ⟨⟨a, b⟩, d⟩; exact ⟨a, fun h => b h.symm, d⟩
    · rintro ⟨a, b, d⟩; exact ⟨⟨a, fun h => b h.symm⟩, d⟩

theorem changes_kinds (tick : Nat) : ∀ (l : List MsgEnt) (c : Client), WF c → ∀ se k,
    k ∈ kindsOn (foldOpt (applyChange tick) (c, false) l).1 se ↔
      k ∈ kindsOn c se ∨ ∃ m ∈ l, m.ent = se ∧ k ∈ m.comps.map (·.1) := by
  intro l
  induction l with
  | nil => intro c _ se k; show k ∈ kindsOn c se ↔ _; simp
  | cons x xs ih =>
    intro c wf se k
    obtain ⟨c1, e1, w1, a1⟩ := applyChange_kinds tick c x wf
    have hstep : foldOpt (applyChange tick) (c, false) (x :: xs) = foldOpt (applyChange tick) (c1, false) xs := by
      unfold foldOpt
      rw [List.foldl_cons]
      simp only [Bool.false_eq_true, if_false, e1]
    rw [hstep, ih c1 w1 se k, a1 se k]
    simp only [List.mem_cons, exists_eq_or_imp]
    constructor
    · rintro ((h | ⟨h1, h2⟩) | h)
      · exact Or.inl h
      · exact Or.inr (Or.inl ⟨h1.symm, h2⟩)
      · exact Or.inr (Or.inr h)
    · rintro (h | ⟨h1, h2⟩ | h)
      · exact Or.inl (Or.inl h)
      · exact Or.inl (Or.inr ⟨h1.symm, h2⟩)
      · exact Or.inr h

/-- **`apply_update_message` and the kinds of every entity**: for a well-formed client and a
message without pre-spawn mappings, the component kinds the client has for a server entity after
the message are `stepKinds` of the kinds it had: a despawn forgets them, a removal record removes
its kinds, a change record adds its kinds. -/
theorem applyUpdate_kinds (c : Client) (u : Update) (wf : WF c) (hm : u.mappings = []) (se k : Nat) :
    k ∈ kindsOn (applyUpdate c u) se ↔ k ∈ stepKinds (kindsOn c se) u se := by
  unfold applyUpdate
  simp only [hm, List.foldl_nil]
  have wf0 : WF { c with updateTick := u.tick } := ⟨wf.alive, wf.inj, wf.bound⟩
  have h0 : ∀ se k, k ∈ kindsOn { c with updateTick := u.tick } se ↔ k ∈ kindsOn c se := fun _ _ => Iff.rfl
  obtain ⟨w1, _⟩ := despawns_spec u.despawns _ wf0
  obtain ⟨f2, w2, _, _⟩ := removals_spec u.tick u.removals _ w1
  have hk2 := removals_kinds u.tick u.removals _ w1 se k
  generalize hc2 : foldOpt (applyRemoval u.tick) (u.despawns.foldl applyDespawn { c with updateTick := u.tick }, false) u.removals = st2 at f2 w2 hk2
  have hst2 : st2 = (st2.1, false) := by rw [← f2]
  rw [hst2, changes_kinds u.tick u.changes st2.1 w2 se k, hk2, despawns_kinds u.despawns _ wf0 se k, h0 se k,
    mem_stepKinds, mem_remKinds, mem_chgKinds]
  constructor
  · rintro (⟨⟨h1, h2⟩, h3⟩ | ⟨m, hm1, hm2, hm3⟩)
    · left
      refine ⟨⟨h2, h1⟩, ?_⟩
      rintro ⟨ks, hks, hk⟩
      exact h3 (se, ks) hks rfl hk
    · exact Or.inr ⟨m, hm1, hm2, hm3⟩
  · rintro (⟨⟨h1, h2⟩, h3⟩ | ⟨m, hm1, hm2, hm3⟩)
    · left
      refine ⟨⟨h2, h1⟩, ?_⟩
      intro r hr he hk
      apply h3
      exact ⟨r.2, by rw [← he]; exact hr, hk⟩
    · exact Or.inr ⟨m, hm1, hm2, hm3⟩

/-- the session's update messages, replayed: the client's kinds are the ghost's -/
theorem replay_kinds : ∀ (l : List Update) (c : Client), WF c → Joint.logOkFrom c l → ∀ se k,
    k ∈ kindsOn (l.foldl applyUpdate c) se ↔ k ∈ l.foldl (fun S u => stepKinds S u se) (kindsOn c se) := by
  intro l
  induction l with
  | nil => intro c _ _ se k; exact Iff.rfl
  | cons u us ih =>
    intro c wf hok se k
    obtain ⟨ok1, okrest⟩ := hok
    rw [List.foldl_cons, List.foldl_cons]
    have w1 := (applyUpdate_held c u wf ok1.1 ok1.2).1
    rw [ih _ w1 okrest se k]
    have hstep : ∀ (S S' : List Nat), (∀ j, j ∈ S ↔ j ∈ S') → ∀ (us : List Update) (j : Nat),
        j ∈ us.foldl (fun S u => stepKinds S u se) S ↔ j ∈ us.foldl (fun S u => stepKinds S u se) S' := by
      intro S S' h us
      induction us generalizing S S' with
      | nil => intro j; exact h j
      | cons v vs ih2 =>
        intro j
        rw [List.foldl_cons, List.foldl_cons]
        apply ih2
        intro i
        rw [mem_stepKinds, mem_stepKinds, h i]
    exact hstep _ _ (fun j => applyUpdate_kinds c u wf ok1.1 se j) us k

end Replicon.Cli

namespace Replicon.Joint
open Replicon Replicon.Srv Replicon.Cli

/-- **Which components, over ALL histories, across both models.**  After any history (entity
identifiers not reused, a stopped server sees a frame before a restart, no pre-spawn mappings)
that ends with a frame in which `send_replication` ran: for every authorized client and every
entity the server tracks for it (exactly the replicated entities visible to the client,
`session_view`), the client model fed the session's update messages in order has, on its entity
for that server entity, exactly the replicated component kinds the server entity carries. -/
theorem session_components (s0 : Server) (hw : s0.world = []) (hc0 : s0.clients = []) (hb : s0.removalBuf = [])
    (ht : s0.lastRun < s0.now)
    (ops : List Op) (ticked : Bool) (ms : Nat) (parts : Nat → List (List Nat))
    (hl : Legal2 { srv := s0 } (ops ++ [.frame ticked ms parts]))
    (hr : (run { srv := s0 } ops).1.srv.running = true)
    (hc : (preRun (run { srv := s0 } ops).1.srv ticked ms).tickChanged = true) :
    ∀ x ∈ (run { srv := s0 } (ops ++ [.frame ticked ms parts])).1.srv.clients, x.2.authorized = true →
      ∀ e, e ∈ keys x.2 → ∀ ent, (e, ent) ∈ (run { srv := s0 } (ops ++ [.frame ticked ms parts])).1.srv.world →
        ∀ k, k ∈ kindsOn (replay ((runLog { srv := s0 } (fun _ => []) (ops ++ [.frame ticked ms parts])).2 x.1)) e ↔
          k ∈ presentKinds (run { srv := s0 } (ops ++ [.frame ticked ms parts])).1.srv ent := by
  intro x hx ha e hke ent hwld k
  rw [← session_kinds s0 hw hc0 hb ht ops ticked ms parts hl hr hc x hx ha e hke ent hwld k]
  have inv0 : SessInv ({ srv := s0 } : St) (fun _ => []) := by
    refine ⟨sync_empty s0 hw hc0, ⟨fun _ => hb, fun _ r hrm => ?_⟩, ?_⟩
    · have : r ∈ s0.removalBuf := hrm
      rw [hb] at this; cases this
    · intro y hy
      have : y ∈ s0.clients := hy
      rw [hc0] at this; cases this
  have inv := sess_run _ _ _ inv0 hl
  have hx' := hx
  rw [← runLog_fst _ _ (fun _ => [])] at hx'
  obtain ⟨_, _, _, _, hok⟩ := inv.cli x hx'
  unfold replay ghostKinds
  have := replay_kinds _ {} wf_fresh hok e k
  rw [this]
  have h0 : kindsOn ({} : Client) e = [] := rfl
  rw [h0]

end Replicon.Joint
