import Replicon.Proofs.Jump
import Replicon.Proofs.JointEvents
import Replicon.Proofs.JointLocal

/-!
# Remote events over histories with tick jumps (C05)

`sent_sub` of `Proofs/JointEvents.lean`, one step at a time, and lifted to `Joint.OpJ`: a jump of
the tick hands nothing to the transport and leaves the event buffers alone.
-/

namespace Replicon.Joint
open Replicon Replicon.Srv Replicon.Evt

/-- one step: what it hands to the transport for `(c, ch)`, followed by what can still be flushed
afterwards, is a sub-sequence of what could be flushed before followed by what the step emits -/
theorem sent_step (c ch : Nat) (st : St) (inv : Inv st) (op : Op) :
    List.Sublist (pick c ch (step st op).2.2 ++ remaining (step st op).1 c ch)
      (remaining st c ch ++ emittedIds ch [op]) := by
  have quiet : ∀ (_ : (step st op).2.2 = []) (_ : List.Sublist (remaining (step st op).1 c ch) (remaining st c ch))
      (_ : emittedIds ch [op] = []),
      List.Sublist (pick c ch (step st op).2.2 ++ remaining (step st op).1 c ch)
        (remaining st c ch ++ emittedIds ch [op]) := by
    intro hout hrem hem
    rw [hout, hem]
    simp only [pick, List.filter_nil, List.map_nil, List.nil_append, List.append_nil]
    exact hrem
  have same : ∀ st', st'.ev = st.ev → st'.pending = st.pending → List.Sublist (remaining st' c ch) (remaining st c ch) := by
    intro st' h1 h2; rw [remaining_congr st st' c ch h1 h2]; exact List.Sublist.refl _
  cases op with
  | spawn e m cs => exact quiet rfl (same _ rfl rfl) rfl
  | despawn e => exact quiet rfl (same _ rfl rfl) rfl
  | insert e k v => exact quiet rfl (same _ rfl rfl) rfl
  | mutate e k v => exact quiet rfl (same _ rfl rfl) rfl
  | remove e k => exact quiet rfl (same _ rfl rfl) rfl
  | mark e on => exact quiet rfl (same _ rfl rfl) rfl
  | vis c' e b => exact quiet rfl (same _ rfl rfl) rfl
  | map c' e p => exact quiet rfl (same _ rfl rfl) rfl
  | authorize c' => exact quiet rfl (same _ rfl rfl) rfl
  | disconnect c' => exact quiet rfl (same _ rfl rfl) rfl
  | stop => exact quiet rfl (same _ rfl rfl) rfl
  | start => exact quiet rfl (same _ rfl rfl) rfl
  | ack c' idxs => exact quiet rfl (same _ rfl rfl) rfl
  | connect c' a =>
    refine quiet rfl ?_ rfl
    show List.Sublist (remaining (step st (Op.connect c' a)).1 c ch) _
    unfold remaining
    simp only [step, bufFor_exclude]
    refine List.Sublist.append ?_ (List.Sublist.refl _)
    split
    · simp
    · exact List.Sublist.refl _
  | emit em =>
    have hrem : remaining (step st (.emit em)).1 c ch =
        remaining st c ch ++ (if !em.independent && em.ev.chan = ch then [em.ev.id] else []) := by
      simp only [step, remaining, depIds_append, List.append_assoc]
      congr 1
      cases hi : em.independent <;> by_cases hc : em.ev.chan = ch <;> simp [depIds, hi, hc]
    have hout : (step st (.emit em)).2.2 = [] := rfl
    rw [hout, hrem]
    simp only [pick, List.filter_nil, List.map_nil, List.nil_append]
    simp [emittedIds]
  | frame t ms parts =>
    have hk : ((peersOf (st.srv.frameBegin t ms).1).map (·.id)).Nodup := by
      rw [peersOf_keys]; exact frameBegin_keys_nodup st.srv t ms inv.nodup
    have hf := frame_sent_sub st t ms parts c ch hk
    have hem : emittedIds ch [Op.frame t ms parts] = [] := rfl
    rw [hem, List.append_nil]
    exact hf

/-- dependent events of channel `ch` emitted by a history with jumps, in emission order -/
def emittedIdsJ (ch : Nat) : List OpJ → List Nat
  | [] => []
  | .op o :: ops => emittedIds ch [o] ++ emittedIdsJ ch ops
  | .jump _ :: ops => emittedIdsJ ch ops

theorem sent_subJ (c ch : Nat) (ops : List OpJ) : ∀ (st : St), Inv st →
    List.Sublist (sentIds c ch (runJ st ops).2) (remaining st c ch ++ emittedIdsJ ch ops) := by
  induction ops with
  | nil => intro st _; simp [runJ, sentIds]
  | cons op ops ih =>
    intro st inv
    have inv' := (inv_stepJO st op inv).1
    have hrec := ih (stepJO st op).1 inv'
    have hrun : sentIds c ch (runJ st (op :: ops)).2 =
        pick c ch (stepJO st op).2.2 ++ sentIds c ch (runJ (stepJO st op).1 ops).2 := by
      simp [runJ, sentIds, pick]
    rw [hrun]
    cases op with
    | op o =>
      have h1 := sent_step c ch st inv o
      show List.Sublist (pick c ch (step st o).2.2 ++ sentIds c ch (runJ (step st o).1 ops).2)
        (remaining st c ch ++ (emittedIds ch [o] ++ emittedIdsJ ch ops))
      have hrec' : List.Sublist (sentIds c ch (runJ (step st o).1 ops).2)
          (remaining (step st o).1 c ch ++ emittedIdsJ ch ops) := hrec
      refine (List.Sublist.append (List.Sublist.refl _) hrec').trans ?_
      rw [← List.append_assoc, ← List.append_assoc]
      exact List.Sublist.append h1 (List.Sublist.refl _)
    | jump k =>
      show List.Sublist (pick c ch [] ++ sentIds c ch (runJ (st.jump k) ops).2)
        (remaining st c ch ++ emittedIdsJ ch ops)
      have hrec' : List.Sublist (sentIds c ch (runJ (st.jump k) ops).2)
          (remaining (st.jump k) c ch ++ emittedIdsJ ch ops) := hrec
      have hr : remaining (st.jump k) c ch = remaining st c ch := rfl
      rw [hr] at hrec'
      simpa [pick] using hrec'

/-- from the initial state: a sub-sequence of the emissions, in emission order -/
theorem sent_subJ_init (c ch : Nat) (ops : List OpJ) :
    List.Sublist (sentIds c ch (runJ {} ops).2) (emittedIdsJ ch ops) := by
  have := sent_subJ c ch ops {} inv_init
  simpa [remaining, bufFor, depIds] using this

/-- after a connect: nothing that was buffered before reaches the newcomer -/
theorem sent_subJ_connect (c ch : Nat) (a : Bool) (ops : List OpJ) (st : St) (inv : Inv st) :
    List.Sublist (sentIds c ch (runJ (step st (.connect c a)).1 ops).2) (depIds ch st.pending ++ emittedIdsJ ch ops) := by
  have := sent_subJ c ch ops (step st (.connect c a)).1 (inv_step st _ inv).1
  have hrem : remaining (step st (.connect c a)).1 c ch = depIds ch st.pending := by
    unfold remaining
    simp [step, bufFor_exclude]
  rw [hrem] at this
  exact this

end Replicon.Joint

/-! ### local re-emission (C13) with jumps -/

namespace Replicon.Joint
open Replicon Replicon.Srv Replicon.Evt

def emittedLocalJ : List OpJ → List Nat
  | [] => []
  | .op o :: ops => emittedLocal [o] ++ emittedLocalJ ops
  | .jump _ :: ops => emittedLocalJ ops

theorem local_logJ (ops : List OpJ) : ∀ (st : St),
    (runJ st ops).1.localLog ++ localIds (runJ st ops).1.pending =
      st.localLog ++ localIds st.pending ++ emittedLocalJ ops := by
  induction ops with
  | nil => intro st; simp [runJ, emittedLocalJ]
  | cons op ops ih =>
    intro st
    have hrun : (runJ st (op :: ops)).1 = (runJ (stepJO st op).1 ops).1 := rfl
    rw [hrun, ih]
    cases op with
    | op o =>
      have h1 := local_log [o] st
      have h2 : (run st [o]).1 = (step st o).1 := rfl
      rw [h2] at h1
      show (step st o).1.localLog ++ localIds (step st o).1.pending ++ emittedLocalJ ops = _
      rw [h1]
      simp [emittedLocalJ, List.append_assoc]
    | jump k => rfl

end Replicon.Joint
