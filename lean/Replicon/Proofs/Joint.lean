import Replicon.Model.Joint
import Replicon.Proofs.Server
import Replicon.Proofs.Events
/-
Invariant of the joint server model over arbitrary histories (`Model/Joint.lean`): every
client's `update_tick` is the tick of the last update message sent to it in its session, those
ticks strictly increase, and every dependent event leaves the server stamped with that tick.
-/
set_option maxHeartbeats 400000
namespace Replicon.Srv

theorem aget_of_mem_nodup {α : Type} : ∀ (l : List (Nat × α)) (k : Nat) (v : α),
    (l.map (·.1)).Nodup → (k, v) ∈ l → aget l k = some v := by
  intro l
  induction l with
  | nil => intro k v _ h; cases h
  | cons x xs ih =>
    intro k v hn hm
    rw [List.map_cons, List.nodup_cons] at hn
    unfold aget
    rw [List.lookup_cons]
    rcases List.mem_cons.mp hm with h | h
    · subst h; simp
    · have hne : x.1 ≠ k := by
        intro he
        exact hn.1 (by rw [he]; exact List.mem_map_of_mem (f := (·.1)) h)
      have : (k == x.1) = false := by simp [Ne.symm hne]
      rw [this]
      exact ih k v hn.2 h

theorem mem_of_aget {α : Type} : ∀ (l : List (Nat × α)) (k : Nat) (v : α), aget l k = some v → (k, v) ∈ l := by
  intro l
  induction l with
  | nil => intro k v h; cases h
  | cons x xs ih =>
    intro k v h
    unfold aget at h
    rw [List.lookup_cons] at h
    by_cases hk : k = x.1
    · subst hk; simp at h; subst h; exact List.mem_cons_self
    · have : (k == x.1) = false := by simp [hk]
      rw [this] at h
      exact List.mem_cons_of_mem _ (ih k v h)

theorem mem_aset {α : Type} (l : List (Nat × α)) (k : Nat) (v : α) (x : Nat × α) :
    x ∈ aset l k v ↔ x = (k, v) ∨ (x ∈ l ∧ x.1 ≠ k) := by
  unfold aset
  simp [List.mem_cons, List.mem_filter]

theorem nodup_aset {α : Type} (l : List (Nat × α)) (k : Nat) (v : α) (h : (l.map (·.1)).Nodup) :
    ((aset l k v).map (·.1)).Nodup := by
  unfold aset
  rw [List.map_cons, List.nodup_cons]
  constructor
  · intro hm
    rw [List.mem_map] at hm
    obtain ⟨x, hx, he⟩ := hm
    rw [List.mem_filter] at hx
    simp at hx
    exact hx.2 he
  · exact (List.filter_sublist.map _).nodup h

theorem nodup_adel {α : Type} (l : List (Nat × α)) (k : Nat) (h : (l.map (·.1)).Nodup) :
    ((adel l k).map (·.1)).Nodup := by
  unfold adel
  exact (List.filter_sublist.map _).nodup h

theorem mem_adel {α : Type} (l : List (Nat × α)) (k : Nat) (x : Nat × α) :
    x ∈ adel l k ↔ x ∈ l ∧ x.1 ≠ k := by
  unfold adel
  simp [List.mem_filter]

/-- members of `updClient`: the updated one, or untouched others -/
theorem mem_updClient (s : Server) (c : Nat) (f : Cli → Cli) (x : Nat × Cli) (hn : (s.clients.map (·.1)).Nodup) :
    x ∈ (s.updClient c f).clients → (∃ cl, (c, cl) ∈ s.clients ∧ x = (c, f cl)) ∨ (x ∈ s.clients ∧ x.1 ≠ c) := by
  unfold Server.updClient
  cases h : aget s.clients c with
  | none =>
    intro hx
    right
    refine ⟨hx, ?_⟩
    intro he
    have := aget_of_mem_nodup s.clients x.1 x.2 hn hx
    rw [he, h] at this
    cases this
  | some cl =>
    intro hx
    simp only at hx
    rcases (mem_aset _ _ _ _).mp hx with rfl | ⟨hm, hne⟩
    · left; exact ⟨cl, mem_of_aget _ _ _ h, rfl⟩
    · right; exact ⟨hm, hne⟩

theorem nodup_updClient (s : Server) (c : Nat) (f : Cli → Cli) (hn : (s.clients.map (·.1)).Nodup) :
    ((s.updClient c f).clients.map (·.1)).Nodup := by
  unfold Server.updClient
  cases aget s.clients c with
  | none => exact hn
  | some cl => exact nodup_aset _ _ _ hn

theorem updClient_fields (s : Server) (c : Nat) (f : Cli → Cli) :
    (s.updClient c f).tick = s.tick ∧ (s.updClient c f).tickChanged = s.tickChanged ∧
    (s.updClient c f).running = s.running ∧ (s.updClient c f).lastRunning = s.lastRunning := by
  unfold Server.updClient
  cases aget s.clients c <;> exact ⟨rfl, rfl, rfl, rfl⟩


/-- `s'` has the same clients, tick and tick-change flag as `s` -/
def SameCtl (s s' : Server) : Prop :=
  s'.clients = s.clients ∧ s'.tick = s.tick ∧ s'.tickChanged = s.tickChanged

theorem SameCtl.refl (s : Server) : SameCtl s s := ⟨rfl, rfl, rfl⟩
theorem SameCtl.trans {a b c : Server} (h1 : SameCtl a b) (h2 : SameCtl b c) : SameCtl a c :=
  ⟨h2.1.trans h1.1, h2.2.1.trans h1.2.1, h2.2.2.trans h1.2.2⟩

theorem leave_ctl (s : Server) (e : Nat) : SameCtl s (s.leaveReplication e) := by
  unfold Server.leaveReplication; split <;> exact ⟨rfl, rfl, rfl⟩

theorem spawn_ctl (s : Server) (e : Nat) (m : Bool) (cs : List (Nat × Nat)) : SameCtl s (s.spawn e m cs) := ⟨rfl, rfl, rfl⟩

theorem despawn_ctl (s : Server) (e : Nat) : SameCtl s (s.despawn e) := by
  unfold Server.despawn
  cases aget s.world e with
  | none => exact SameCtl.refl s
  | some ent =>
    simp only
    split
    · exact SameCtl.trans (leave_ctl s e) ⟨rfl, rfl, rfl⟩
    · exact ⟨rfl, rfl, rfl⟩

theorem insert_ctl (s : Server) (e k v : Nat) : SameCtl s (s.insert e k v) := by
  unfold Server.insert
  cases aget s.world e with
  | none => exact SameCtl.refl s
  | some ent => exact ⟨rfl, rfl, rfl⟩

theorem mutate_ctl (s : Server) (e k v : Nat) : SameCtl s (s.mutate e k v) := by
  unfold Server.mutate
  cases aget s.world e with
  | none => exact SameCtl.refl s
  | some ent =>
    simp only
    cases aget ent.comps k with
    | none => exact SameCtl.refl s
    | some old => exact ⟨rfl, rfl, rfl⟩

theorem remove_ctl (s : Server) (e k : Nat) : SameCtl s (s.remove e k) := by
  unfold Server.remove
  cases aget s.world e with
  | none => exact SameCtl.refl s
  | some ent =>
    simp only
    split
    · exact SameCtl.refl s
    · exact ⟨rfl, rfl, rfl⟩

theorem mark_ctl (s : Server) (e : Nat) (on : Bool) : SameCtl s (s.mark e on) := by
  unfold Server.mark
  cases aget s.world e with
  | none => exact SameCtl.refl s
  | some ent =>
    simp only
    cases on
    · simp only [Bool.false_eq_true, if_false]
      split
      · exact SameCtl.refl s
      · exact SameCtl.trans (leave_ctl s e) ⟨rfl, rfl, rfl⟩
    · simp only [if_true]
      split
      · exact SameCtl.refl s
      · exact ⟨rfl, rfl, rfl⟩


/-! ### per-client steps that leave the update tick and the authorization alone -/

theorem ackOne_keeps (cl : Cli) (i : Nat) : (ackOne cl i).updateTick = cl.updateTick ∧ (ackOne cl i).authorized = cl.authorized := by
  unfold ackOne
  cases cl.inflight.find? (·.index = i) <;> exact ⟨rfl, rfl⟩

theorem ackFoldl_keeps (l : List Nat) : ∀ (cl : Cli), (l.foldl ackOne cl).updateTick = cl.updateTick ∧ (l.foldl ackOne cl).authorized = cl.authorized := by
  induction l with
  | nil => intro cl; exact ⟨rfl, rfl⟩
  | cons i is ih =>
    intro cl
    rw [List.foldl_cons]
    obtain ⟨h1, h2⟩ := ih (ackOne cl i)
    obtain ⟨k1, k2⟩ := ackOne_keeps cl i
    exact ⟨h1.trans k1, h2.trans k2⟩

theorem processAcks_keeps (cl : Cli) : cl.processAcks.updateTick = cl.updateTick ∧ cl.processAcks.authorized = cl.authorized := by
  unfold Cli.processAcks
  split
  · exact ⟨rfl, rfl⟩
  · exact ackFoldl_keeps cl.pendingAcks cl

theorem register_keeps (thisRun time : Nat) (parts : List (List Nat)) : ∀ (cl : Cli),
    (cl.register thisRun time parts).updateTick = cl.updateTick ∧ (cl.register thisRun time parts).authorized = cl.authorized := by
  unfold Cli.register
  induction parts with
  | nil => intro cl; exact ⟨rfl, rfl⟩
  | cons p ps ih =>
    intro cl
    rw [List.foldl_cons]
    obtain ⟨h1, h2⟩ := ih _
    exact ⟨h1, h2⟩

theorem visUpdate_keeps (w : Bool) (cl : Cli) : (cl.visUpdate w).updateTick = cl.updateTick ∧ (cl.visUpdate w).authorized = cl.authorized :=
  ⟨rfl, rfl⟩

theorem despawnPhase_authorized (s : Server) (cl : Cli) : (despawnPhase s cl).1.authorized = cl.authorized := by
  unfold despawnPhase
  simp only
  have : ∀ (l : List Nat) (acc : Cli × List Nat),
      (l.foldl (fun (acc : Cli × List Nat) e =>
        let c0 := cell acc.1 e
        let ds := if Vis.isVisible s.white c0 then acc.2 ++ [e] else acc.2
        let cl1 := setCell acc.1 e (Vis.removeDespawned s.white c0)
        ({ cl1 with mutTick := adel cl1.mutTick e }, ds)) acc).1.authorized = acc.1.authorized := by
    intro l
    induction l with
    | nil => intro acc; rfl
    | cons e es ih =>
      intro acc
      rw [List.foldl_cons, ih]
      rfl
  exact this _ _

/-- `send_replication` for one client: the update tick becomes the server tick exactly when an
update message is sent; the authorization is untouched -/
theorem runClient_ticks (s : Server) (thisRun : Nat) (cl : Cli) :
    (runClient s thisRun cl).1.authorized = cl.authorized ∧
    (runClient s thisRun cl).1.updateTick =
      (match (runClient s thisRun cl).2.update with | some u => u.tick | none => cl.updateTick) ∧
    (∀ u, (runClient s thisRun cl).2.update = some u → u.tick = s.tick) := by
  unfold runClient
  simp only
  split
  · refine ⟨?_, ?_, fun u h => by simp at h⟩
    · simp only; exact (despawnPhase_authorized s _).trans rfl
    · simp only; exact (despawnPhase_updateTick s _).trans rfl
  · refine ⟨?_, rfl, fun u h => ?_⟩
    · simp only; exact (despawnPhase_authorized s _).trans rfl
    · simp only [Option.some.injEq] at h; subst h; rfl

end Replicon.Srv

namespace Replicon.Srv

theorem bufferRemovals_ctl (s : Server) :
    s.bufferRemovals.clients = s.clients ∧ s.bufferRemovals.tick = s.tick ∧ s.bufferRemovals.tickChanged = s.tickChanged ∧
    s.bufferRemovals.now = s.now ∧ s.bufferRemovals.running = s.running ∧ s.bufferRemovals.white = s.white := by
  unfold Server.bufferRemovals
  split <;> exact ⟨rfl, rfl, rfl, rfl, rfl, rfl⟩

theorem frameBegin_running (s : Server) (ticked : Bool) (ms : Nat) (h : s.running = true) :
    s.frameBegin ticked ms =
      if !(preRun s ticked ms).tickChanged then (preRun s ticked ms, false, [])
      else ((preRun s ticked ms).runAll.1, true, (preRun s ticked ms).runAll.2) := by
  unfold Server.frameBegin preRun
  simp only [h, Bool.not_true, Bool.false_eq_true, if_false]

theorem frameBegin_stopped (s : Server) (ticked : Bool) (ms : Nat) (h : s.running = false) :
    (s.frameBegin ticked ms).2.1 = false ∧ (s.frameBegin ticked ms).2.2 = [] ∧
    (s.frameBegin ticked ms).1.clients = (if s.lastRunning then [] else s.clients) ∧
    (s.frameBegin ticked ms).1.tick = (if s.lastRunning then 0 else s.tick) ∧
    ((s.frameBegin ticked ms).1.tickChanged = true → s.lastRunning = true) := by
  unfold Server.frameBegin
  simp only [h, Bool.not_false, if_true]
  cases hl : s.lastRunning
  · simp [hl]
  · simp [hl, Server.reset]

/-- what `preRun` does to the clients: the same keys, each state passed through a function that
leaves the update tick and the authorization alone -/
theorem preRun_clients (s : Server) (ticked : Bool) (ms : Nat) :
    ∃ G : Cli → Cli, (∀ cl, (G cl).updateTick = cl.updateTick ∧ (G cl).authorized = cl.authorized) ∧
      (preRun s ticked ms).clients = s.clients.map fun x => (x.1, G x.2) := by
  unfold preRun
  simp only
  rw [(bufferRemovals_ctl _).1]
  by_cases hf : (decide (s.timerAcc + s.frameMs ms ≥ s.timeout) && decide (s.timeout > 0)) = true
  · refine ⟨fun cl => { cl.processAcks with inflight := cl.processAcks.inflight.filter fun i => !(i.time < s.elapsed + s.frameMs ms - s.timeout) }, ?_, ?_⟩
    · intro cl; exact processAcks_keeps cl
    · simp only [hf, if_true]
      cases ticked <;> simp [Server.cleanupAcks, List.map_map, Function.comp]
  · refine ⟨Cli.processAcks, processAcks_keeps, ?_⟩
    simp only [hf, Bool.false_eq_true, if_false]
    cases ticked <;> simp
where
  processAcks_keeps (cl : Cli) : cl.processAcks.updateTick = cl.updateTick ∧ cl.processAcks.authorized = cl.authorized := by
    unfold Cli.processAcks
    split
    · exact ⟨rfl, rfl⟩
    · have : ∀ (l : List Nat) (cl : Cli), (l.foldl ackOne cl).updateTick = cl.updateTick ∧ (l.foldl ackOne cl).authorized = cl.authorized := by
        intro l
        induction l with
        | nil => intro cl; exact ⟨rfl, rfl⟩
        | cons i is ih =>
          intro cl
          rw [List.foldl_cons]
          obtain ⟨h1, h2⟩ := ih (ackOne cl i)
          have k : (ackOne cl i).updateTick = cl.updateTick ∧ (ackOne cl i).authorized = cl.authorized := by
            unfold ackOne
            cases cl.inflight.find? (·.index = i) <;> exact ⟨rfl, rfl⟩
          exact ⟨h1.trans k.1, h2.trans k.2⟩
      exact this cl.pendingAcks cl

theorem preRun_tick (s : Server) (ticked : Bool) (ms : Nat) :
    (preRun s ticked ms).tick = (if ticked then s.tick + 1 else s.tick) ∧
    (preRun s ticked ms).tickChanged = (ticked || s.tickChanged) := by
  unfold preRun
  simp only
  rw [(bufferRemovals_ctl _).2.1, (bufferRemovals_ctl _).2.2.1]
  by_cases hf : (decide (s.timerAcc + s.frameMs ms ≥ s.timeout) && decide (s.timeout > 0)) = true
  · cases ticked <;> simp [hf, Server.cleanupAcks]
  · cases ticked <;> simp [hf]

theorem runAll_clients (p : Server) :
    p.runAll.1.clients = p.clients.map (fun x =>
      (x.1, if x.2.authorized then (runClient p (p.now + 1) x.2).1 else x.2)) ∧
    p.runAll.1.tick = p.tick ∧ p.runAll.1.tickChanged = p.tickChanged := by
  unfold Server.runAll
  refine ⟨?_, rfl, rfl⟩
  simp only [List.map_map]
  apply List.map_congr_left
  intro x _
  simp only [Function.comp]
  split <;> rfl

end Replicon.Srv


namespace Replicon.Joint
open Replicon Replicon.Srv Replicon.Evt

theorem lastOr0_append (l : List Nat) (t : Nat) : lastOr0 (l ++ [t]) = t := by
  unfold lastOr0; simp

structure Inv (st : St) : Prop where
  nodup : (st.srv.clients.map (·.1)).Nodup
  tickEq : ∀ c cl, (c, cl) ∈ st.srv.clients → cl.updateTick = lastOr0 (st.sent c)
  incr : ∀ c, (st.sent c).Pairwise (· < ·)
  le : ∀ c t, t ∈ st.sent c → t ≤ st.srv.tick
  fresh : st.srv.tickChanged = true → ∀ c t, t ∈ st.sent c → t < st.srv.tick
  unauth : ∀ c cl, (c, cl) ∈ st.srv.clients → cl.authorized = false → st.sent c = []

theorem inv_init : Inv {} := by
  refine ⟨?_, ?_, ?_, ?_, ?_, ?_⟩
  · simp
  · intro c cl h; cases h
  · intro c; simp
  · intro c t h; cases h
  · intro _ c t h; cases h
  · intro c cl h; cases h

/-- operations that leave clients, tick and the tick-change flag alone -/
theorem inv_ctl (st : St) (s' : Server) (h : SameCtl st.srv s') (inv : Inv st) : Inv { st with srv := s' } := by
  obtain ⟨hc, ht, htc⟩ := h
  exact ⟨by simpa [hc] using inv.nodup, by simpa [hc] using inv.tickEq, inv.incr, by simpa [ht] using inv.le,
    by simpa [ht, htc] using inv.fresh, by simpa [hc] using inv.unauth⟩

/-- a per-client change that keeps the update tick and the authorization -/
theorem inv_upd (st : St) (c : Nat) (f : Cli → Cli)
    (hf : ∀ cl, (f cl).updateTick = cl.updateTick ∧ (f cl).authorized = cl.authorized) (inv : Inv st) :
    Inv { st with srv := st.srv.updClient c f } := by
  obtain ⟨h1, h2, _, _⟩ := updClient_fields st.srv c f
  refine ⟨nodup_updClient _ _ _ inv.nodup, ?_, inv.incr, by simpa [h1] using inv.le, by simpa [h1, h2] using inv.fresh, ?_⟩
  · intro k cl hm
    rcases mem_updClient _ _ _ _ inv.nodup hm with ⟨cl0, hm0, he⟩ | ⟨hm0, _⟩
    · cases he
      rw [(hf cl0).1]
      exact inv.tickEq c cl0 hm0
    · exact inv.tickEq k cl hm0
  · intro k cl hm ha
    rcases mem_updClient _ _ _ _ inv.nodup hm with ⟨cl0, hm0, he⟩ | ⟨hm0, _⟩
    · cases he
      rw [(hf cl0).2] at ha
      exact inv.unauth c cl0 hm0 ha
    · exact inv.unauth k cl hm0 ha

end Replicon.Joint

namespace Replicon.Joint
open Replicon Replicon.Srv Replicon.Evt

theorem frameEnd_false (s : Server) (parts : Nat → List (List Nat)) :
    (s.frameEnd false parts).clients = s.clients ∧ (s.frameEnd false parts).tick = s.tick ∧
    (s.frameEnd false parts).tickChanged = s.tickChanged := by
  unfold Server.frameEnd; simp

def endFn (s : Server) (parts : Nat → List (List Nat)) (c : Nat) (cl : Cli) : Cli :=
  if cl.authorized then (cl.register (s.now + 1) s.elapsed (parts c)).visUpdate s.white else cl

theorem endFn_keeps (s : Server) (parts : Nat → List (List Nat)) (c : Nat) (cl : Cli) :
    (endFn s parts c cl).updateTick = cl.updateTick ∧ (endFn s parts c cl).authorized = cl.authorized := by
  unfold endFn
  split
  · obtain ⟨h1, h2⟩ := register_keeps (s.now + 1) s.elapsed (parts c) cl
    exact ⟨h1, h2⟩
  · exact ⟨rfl, rfl⟩

theorem frameEnd_true (s : Server) (parts : Nat → List (List Nat)) :
    (s.frameEnd true parts).clients = s.clients.map (fun x => (x.1, endFn s parts x.1 x.2)) ∧
    (s.frameEnd true parts).tick = s.tick ∧ (s.frameEnd true parts).tickChanged = false := by
  refine ⟨?_, ?_, ?_⟩
  · unfold Server.frameEnd
    simp only [Bool.not_true, Bool.false_eq_true, if_false]
    apply List.map_congr_left
    intro x _
    unfold endFn
    split <;> rfl
  · unfold Server.frameEnd; simp
  · unfold Server.frameEnd; simp

/-- members of a list mapped by a key-preserving function -/
theorem mem_map_keyed {β : Type} (l : List (Nat × β)) (F : Nat → β → β) (k : Nat) (v : β) :
    (k, v) ∈ l.map (fun x => (x.1, F x.1 x.2)) ↔ ∃ v0, (k, v0) ∈ l ∧ v = F k v0 := by
  rw [List.mem_map]
  constructor
  · rintro ⟨x, hx, he⟩
    cases he
    exact ⟨x.2, hx, rfl⟩
  · rintro ⟨v0, h, rfl⟩
    exact ⟨(k, v0), h, rfl⟩

theorem map_keyed_keys {β : Type} (l : List (Nat × β)) (F : Nat → β → β) :
    (l.map (fun x => (x.1, F x.1 x.2))).map (·.1) = l.map (·.1) := by
  rw [List.map_map]; rfl

end Replicon.Joint

namespace Replicon.Joint
open Replicon Replicon.Srv Replicon.Evt

/-- a frame of a stopped server -/
theorem inv_frame_stopped (st : St) (ticked : Bool) (ms : Nat) (parts : Nat → List (List Nat)) (inv : Inv st)
    (hr : st.srv.running = false) :
    Inv (frame st ticked ms parts).1 ∧ (frame st ticked ms parts).2.2 = [] := by
  obtain ⟨h1, h2, h3, h4, h5⟩ := frameBegin_stopped st.srv ticked ms hr
  have hev : (frame st ticked ms parts).2.2 = [] := by
    unfold frame
    simp only [hr]
    exact frame_not_running _ _ _ _ _
  refine ⟨?_, hev⟩
  have hsrv : (frame st ticked ms parts).1.srv = (st.srv.frameBegin ticked ms).1.frameEnd false parts := by
    unfold frame; simp only [h1]
  have hsent : (frame st ticked ms parts).1.sent = (if st.srv.lastRunning then fun _ => [] else st.sent) := by
    unfold frame; simp [hr]
  obtain ⟨e1, e2, e3⟩ := frameEnd_false (st.srv.frameBegin ticked ms).1 parts
  cases hl : st.srv.lastRunning
  · -- nothing happens to the clients
    rw [hl] at h3 h4 h5 hsent
    simp only [Bool.false_eq_true, if_false] at h3 h4 hsent
    refine ⟨?_, ?_, ?_, ?_, ?_, ?_⟩
    · rw [hsrv, e1, h3]; exact inv.nodup
    · intro c cl hm; rw [hsrv, e1, h3] at hm; rw [hsent]; exact inv.tickEq c cl hm
    · intro c; rw [hsent]; exact inv.incr c
    · intro c t ht; rw [hsent] at ht; rw [hsrv, e2, h4]; exact inv.le c t ht
    · intro htc; rw [hsrv, e3] at htc; exact absurd (h5 htc) (by simp)
    · intro c cl hm ha; rw [hsrv, e1, h3] at hm; rw [hsent]; exact inv.unauth c cl hm ha
  · -- the reset of a server that just stopped: no clients, nothing sent
    rw [hl] at h3 h4 hsent
    simp only [if_true] at h3 h4 hsent
    refine ⟨?_, ?_, ?_, ?_, ?_, ?_⟩
    · rw [hsrv, e1, h3]; simp
    · intro c cl hm; rw [hsrv, e1, h3] at hm; cases hm
    · intro c; rw [hsent]; simp
    · intro c t ht; rw [hsent] at ht; cases ht
    · intro _ c t ht; rw [hsent] at ht; cases ht
    · intro c cl hm; rw [hsrv, e1, h3] at hm; cases hm

end Replicon.Joint

namespace Replicon.Joint
open Replicon Replicon.Srv Replicon.Evt

/-- the ghost after a run from `p` -/
def sentAfter (sent : Nat → List Nat) (p : Server) : Nat → List Nat :=
  fun c => match updOf p c with
    | some t => sent c ++ [t]
    | none => sent c

theorem independent_unstamped (peers : List Peer) (e : Ev) : ∀ o ∈ sendIndependent peers e, o.stamp = none := by
  intro o ho
  obtain ⟨p, _, _, rfl⟩ := mem_sendIndependent.mp ho
  rfl

/-- what a replication run leaves in the clients, relative to the ghost -/
theorem run_member (st : St) (ticked : Bool) (ms : Nat) (inv : Inv st) :
    let p := preRun st.srv ticked ms
    ∀ c cl1, (c, cl1) ∈ p.runAll.1.clients →
      cl1.updateTick = lastOr0 (sentAfter st.sent p c) ∧
      (cl1.authorized = false → sentAfter st.sent p c = []) ∧
      (∀ t, updOf p c = some t → t = p.tick) := by
  intro p c cl1 hm
  obtain ⟨G, hG, hpc⟩ := preRun_clients st.srv ticked ms
  have hkeys : (p.clients.map (·.1)).Nodup := by
    show ((preRun st.srv ticked ms).clients.map (·.1)).Nodup
    rw [hpc, map_keyed_keys st.srv.clients (fun _ cl => G cl)]
    exact inv.nodup
  rw [(runAll_clients p).1] at hm
  obtain ⟨clp, hclp, rfl⟩ := (mem_map_keyed p.clients (fun _ cl => if cl.authorized then (runClient p (p.now + 1) cl).1 else cl) c cl1).mp hm
  have hclp' : (c, clp) ∈ st.srv.clients.map (fun x => (x.1, G x.2)) := by rw [← hpc]; exact hclp
  obtain ⟨cl0, hcl0, rfl⟩ := (mem_map_keyed st.srv.clients (fun _ cl => G cl) c clp).mp hclp'
  have hag : aget p.clients c = some (G cl0) := aget_of_mem_nodup _ _ _ hkeys hclp
  have h0 := inv.tickEq c cl0 hcl0
  obtain ⟨ra, rt, rtick⟩ := runClient_ticks p (p.now + 1) (G cl0)
  unfold sentAfter updOf
  rw [hag]
  simp only
  by_cases ha : (G cl0).authorized = true
  · simp only [ha, if_true]
    cases hu : (runClient p (p.now + 1) (G cl0)).2.update with
    | none =>
      rw [hu] at rt
      simp only [Option.map_none]
      refine ⟨by rw [rt, (hG cl0).1, h0], ?_, fun t ht => by cases ht⟩
      intro hf; rw [ra, ha] at hf; cases hf
    | some u =>
      rw [hu] at rt
      simp only [Option.map_some]
      refine ⟨by rw [rt, lastOr0_append], ?_, fun t ht => ?_⟩
      · intro hf; rw [ra, ha] at hf; cases hf
      · simp only [Option.some.injEq] at ht; subst ht; exact rtick u hu
  · have ha' : (G cl0).authorized = false := by simpa using ha
    simp only [ha', Bool.false_eq_true, if_false]
    refine ⟨by rw [(hG cl0).1, h0], ?_, fun t ht => by cases ht⟩
    intro _
    exact inv.unauth c cl0 hcl0 (by rw [← (hG cl0).2]; exact ha')

end Replicon.Joint

namespace Replicon.Joint
open Replicon Replicon.Srv Replicon.Evt

theorem evframe_outs (s : SrvEv) (running ticked lok : Bool) (em : List Emitted) (peers : List Peer) :
    ∀ o ∈ (s.frame running ticked lok em peers).2.1,
      o.stamp = none ∨ (ticked = true ∧ ∃ q ∈ peers, o.client = q.id ∧ o.stamp = some q.updateTick) := by
  intro o ho
  unfold SrvEv.frame at ho
  cases running
  · simp at ho
  · simp only [Bool.not_true, Bool.false_eq_true, if_false] at ho
    have hind : ∀ o ∈ (em.filter (·.independent)).flatMap (fun e => sendIndependent peers e.ev), o.stamp = none := by
      intro o ho
      rw [List.mem_flatMap] at ho
      obtain ⟨e, _, he⟩ := ho
      exact independent_unstamped peers e.ev o he
    cases ticked
    · simp only [Bool.false_eq_true, if_false] at ho
      left; exact hind o ho
    · simp only [if_true] at ho
      rcases List.mem_append.mp ho with h | h
      · left; exact hind o h
      · right
        refine ⟨rfl, ?_⟩
        obtain ⟨b, _, e, _, hoe⟩ := mem_sendAll.mp h
        obtain ⟨q, hq, _, _, _, rfl⟩ := mem_sendEvent.mp hoe
        exact ⟨q, hq, rfl, rfl⟩

theorem inv_frame_running (st : St) (ticked : Bool) (ms : Nat) (parts : Nat → List (List Nat)) (inv : Inv st)
    (hr : st.srv.running = true) :
    Inv (frame st ticked ms parts).1 ∧
    ∀ o ∈ (frame st ticked ms parts).2.2, ∀ t, o.stamp = some t →
      t = lastOr0 ((frame st ticked ms parts).1.sent o.client) := by
  have hfb := frameBegin_running st.srv ticked ms hr
  obtain ⟨G, hG, hpc⟩ := preRun_clients st.srv ticked ms
  obtain ⟨hpt, hptc⟩ := preRun_tick st.srv ticked ms
  cases hp : (preRun st.srv ticked ms).tickChanged
  · -- no run in this frame
    rw [hp] at hfb hptc
    simp only [Bool.not_false, if_true] at hfb
    have hticked : ticked = false := by
      cases ticked
      · rfl
      · simp only [Bool.true_or] at hptc; cases hptc
    subst hticked
    simp only [Bool.false_eq_true, if_false] at hpt
    have hsrv : (frame st false ms parts).1.srv = (preRun st.srv false ms).frameEnd false parts := by
      unfold frame; simp only [hfb]
    have hsent : (frame st false ms parts).1.sent = st.sent := by
      unfold frame; simp [hr, hfb]
    have hev : ∀ o ∈ (frame st false ms parts).2.2, o.stamp = none := by
      intro o ho
      unfold frame at ho
      simp only [hfb, hr] at ho
      rcases evframe_outs _ _ _ _ _ _ o ho with h | ⟨h, _⟩
      · exact h
      · cases h
    obtain ⟨e1, e2, e3⟩ := frameEnd_false (preRun st.srv false ms) parts
    refine ⟨⟨?_, ?_, ?_, ?_, ?_, ?_⟩, ?_⟩
    · rw [hsrv, e1, hpc, map_keyed_keys st.srv.clients (fun _ cl => G cl)]; exact inv.nodup
    · intro c cl hm
      rw [hsrv, e1, hpc] at hm
      obtain ⟨cl0, hcl0, rfl⟩ := (mem_map_keyed st.srv.clients (fun _ cl => G cl) c cl).mp hm
      rw [hsent, (hG cl0).1]; exact inv.tickEq c cl0 hcl0
    · intro c; rw [hsent]; exact inv.incr c
    · intro c t ht; rw [hsent] at ht; rw [hsrv, e2, hpt]; exact inv.le c t ht
    · intro htc; rw [hsrv, e3, hp] at htc; cases htc
    · intro c cl hm ha
      rw [hsrv, e1, hpc] at hm
      obtain ⟨cl0, hcl0, rfl⟩ := (mem_map_keyed st.srv.clients (fun _ cl => G cl) c cl).mp hm
      rw [hsent]; exact inv.unauth c cl0 hcl0 (by rw [← (hG cl0).2]; exact ha)
    · intro o ho t ht
      rw [hev o ho] at ht; cases ht
  · -- the replication run, then the flush of the buffered events
    rw [hp] at hfb hptc
    simp only [Bool.not_true, Bool.false_eq_true, if_false] at hfb
    have hsrv : (frame st ticked ms parts).1.srv = (preRun st.srv ticked ms).runAll.1.frameEnd true parts := by
      unfold frame; simp only [hfb]
    have hsent : (frame st ticked ms parts).1.sent = sentAfter st.sent (preRun st.srv ticked ms) := by
      unfold frame; simp only [hr, hfb]; rfl
    have hmem := run_member st ticked ms inv
    simp only at hmem
    obtain ⟨e1, e2, e3⟩ := frameEnd_true (preRun st.srv ticked ms).runAll.1 parts
    obtain ⟨r1, r2, _⟩ := runAll_clients (preRun st.srv ticked ms)
    -- everything sent before is older than this run's tick
    have hold : ∀ c x, x ∈ st.sent c → x < (preRun st.srv ticked ms).tick := by
      intro c x hx
      rw [hpt]
      cases ticked
      · simp only [Bool.false_or] at hptc
        simp only [Bool.false_eq_true, if_false]
        exact inv.fresh hptc.symm c x hx
      · simp only [if_true]
        have := inv.le c x hx
        omega
    refine ⟨⟨?_, ?_, ?_, ?_, ?_, ?_⟩, ?_⟩
    · rw [hsrv, e1, map_keyed_keys, r1,
        map_keyed_keys (preRun st.srv ticked ms).clients
          (fun _ cl => if cl.authorized then (runClient (preRun st.srv ticked ms) ((preRun st.srv ticked ms).now + 1) cl).1 else cl),
        hpc, map_keyed_keys st.srv.clients (fun _ cl => G cl)]
      exact inv.nodup
    · intro c cl hm
      rw [hsrv, e1] at hm
      obtain ⟨cl1, hcl1, rfl⟩ := (mem_map_keyed _ (endFn _ parts) c cl).mp hm
      rw [hsent, (endFn_keeps _ parts c cl1).1]
      exact (hmem c cl1 hcl1).1
    · intro c
      rw [hsent]
      unfold sentAfter
      cases hu : updOf (preRun st.srv ticked ms) c with
      | none => exact inv.incr c
      | some t =>
        simp only
        rw [List.pairwise_append]
        refine ⟨inv.incr c, by simp, ?_⟩
        intro x hx y hy
        simp only [List.mem_singleton] at hy
        subst hy
        -- the new tick is this run's tick
        have : y = (preRun st.srv ticked ms).tick := by
          unfold updOf at hu
          cases hag : aget (preRun st.srv ticked ms).clients c with
          | none => rw [hag] at hu; cases hu
          | some clp =>
            rw [hag] at hu
            simp only at hu
            split at hu
            · cases hup : (runClient (preRun st.srv ticked ms) ((preRun st.srv ticked ms).now + 1) clp).2.update with
              | none => rw [hup] at hu; cases hu
              | some u =>
                rw [hup] at hu
                simp only [Option.map_some, Option.some.injEq] at hu
                rw [← hu]
                exact (runClient_ticks _ _ clp).2.2 u hup
            · cases hu
        rw [this]
        exact hold c x hx
    · intro c t ht
      rw [hsent] at ht
      rw [hsrv, e2, r2]
      unfold sentAfter at ht
      cases hu : updOf (preRun st.srv ticked ms) c with
      | none => rw [hu] at ht; exact Nat.le_of_lt (hold c t ht)
      | some y =>
        rw [hu] at ht
        simp only at ht
        rcases List.mem_append.mp ht with h | h
        · exact Nat.le_of_lt (hold c t h)
        · simp only [List.mem_singleton] at h
          subst h
          -- as above: the new entry is this run's tick
          unfold updOf at hu
          cases hag : aget (preRun st.srv ticked ms).clients c with
          | none => rw [hag] at hu; cases hu
          | some clp =>
            rw [hag] at hu
            simp only at hu
            split at hu
            · cases hup : (runClient (preRun st.srv ticked ms) ((preRun st.srv ticked ms).now + 1) clp).2.update with
              | none => rw [hup] at hu; cases hu
              | some u =>
                rw [hup] at hu
                simp only [Option.map_some, Option.some.injEq] at hu
                rw [← hu, (runClient_ticks _ _ clp).2.2 u hup]
                exact Nat.le_refl _
            · cases hu
    · intro htc; rw [hsrv, e3] at htc; cases htc
    · intro c cl hm ha
      rw [hsrv, e1] at hm
      obtain ⟨cl1, hcl1, rfl⟩ := (mem_map_keyed _ (endFn _ parts) c cl).mp hm
      rw [(endFn_keeps _ parts c cl1).2] at ha
      rw [hsent]
      exact (hmem c cl1 hcl1).2.1 ha
    · intro o ho t ht
      unfold frame at ho
      simp only [hfb, hr] at ho
      rcases evframe_outs _ _ _ _ _ _ o ho with h | ⟨_, q, hq, hc, hs⟩
      · rw [h] at ht; cases ht
      · rw [hs] at ht
        simp only [Option.some.injEq] at ht
        unfold peersOf at hq
        rw [List.mem_map] at hq
        obtain ⟨x, hx, rfl⟩ := hq
        rw [hsent, hc, ← ht]
        exact (hmem x.1 x.2 hx).1

end Replicon.Joint

namespace Replicon.Joint
open Replicon Replicon.Srv Replicon.Evt

/-- what the event systems of a step hand to the transport with a stamp carries the tick of the
last update message sent to that client in its session (0 if none was sent yet) -/
def StampsOk (st' : St) (outs : List Out) : Prop :=
  ∀ o ∈ outs, ∀ t, o.stamp = some t → t = lastOr0 (st'.sent o.client)

theorem inv_step (st : St) (op : Op) (inv : Inv st) :
    Inv (step st op).1 ∧ StampsOk (step st op).1 (step st op).2.2 := by
  have nil : ∀ st', StampsOk st' [] := fun _ o ho => by cases ho
  cases op with
  | spawn e m cs => exact ⟨inv_ctl st _ (spawn_ctl st.srv e m cs) inv, nil _⟩
  | despawn e => exact ⟨inv_ctl st _ (despawn_ctl st.srv e) inv, nil _⟩
  | insert e k v => exact ⟨inv_ctl st _ (insert_ctl st.srv e k v) inv, nil _⟩
  | mutate e k v => exact ⟨inv_ctl st _ (mutate_ctl st.srv e k v) inv, nil _⟩
  | remove e k => exact ⟨inv_ctl st _ (remove_ctl st.srv e k) inv, nil _⟩
  | mark e on => exact ⟨inv_ctl st _ (mark_ctl st.srv e on) inv, nil _⟩
  | vis c e b => exact ⟨inv_upd st c _ (fun cl => ⟨rfl, rfl⟩) inv, nil _⟩
  | map c e p => exact ⟨inv_upd st c _ (fun cl => ⟨rfl, rfl⟩) inv, nil _⟩
  | ack c idxs => exact ⟨inv_upd st c _ (fun cl => ⟨rfl, rfl⟩) inv, nil _⟩
  | start => exact ⟨inv_ctl st _ ⟨rfl, rfl, rfl⟩ inv, nil _⟩
  | emit em => exact ⟨⟨inv.nodup, inv.tickEq, inv.incr, inv.le, inv.fresh, inv.unauth⟩, nil _⟩
  | stop =>
    refine ⟨⟨?_, ?_, ?_, ?_, ?_, ?_⟩, nil _⟩
    · simp [step, Server.stop]
    · intro c cl hm; simp [step, Server.stop] at hm
    · intro c; simp [step]
    · intro c t ht; simp [step] at ht
    · intro _ c t ht; simp [step] at ht
    · intro c cl hm; simp [step, Server.stop] at hm
  | authorize c =>
    refine ⟨?_, nil _⟩
    obtain ⟨h1, h2, _, _⟩ := updClient_fields st.srv c (fun cl => if cl.authorized then cl else { authorized := true })
    refine ⟨nodup_updClient _ _ _ inv.nodup, ?_, inv.incr, ?_, ?_, ?_⟩
    · intro k cl hm
      rcases mem_updClient _ _ _ _ inv.nodup hm with ⟨cl0, hm0, he⟩ | ⟨hm0, _⟩
      · cases he
        by_cases ha : cl0.authorized = true
        · simp only [ha, if_true]; exact inv.tickEq c cl0 hm0
        · have ha' : cl0.authorized = false := by simpa using ha
          simp only [ha', Bool.false_eq_true, if_false]
          show 0 = lastOr0 (st.sent c)
          rw [inv.unauth c cl0 hm0 ha']; rfl
      · exact inv.tickEq k cl hm0
    · intro k t ht; show t ≤ (st.srv.updClient c _).tick; rw [h1]; exact inv.le k t ht
    · intro htc k t ht
      show t < (st.srv.updClient c _).tick
      rw [h1]
      exact inv.fresh (by rw [← h2]; exact htc) k t ht
    · intro k cl hm ha
      rcases mem_updClient _ _ _ _ inv.nodup hm with ⟨cl0, hm0, he⟩ | ⟨hm0, _⟩
      · cases he
        by_cases ha0 : cl0.authorized = true
        · simp only [ha0, if_true] at ha; cases ha
        · have ha' : cl0.authorized = false := by simpa using ha0
          exact inv.unauth c cl0 hm0 ha'
      · exact inv.unauth k cl hm0 ha
  | connect c a =>
    refine ⟨⟨?_, ?_, ?_, ?_, ?_, ?_⟩, nil _⟩
    · exact nodup_aset _ _ _ inv.nodup
    · intro k cl hm
      simp only [step, Server.connect] at hm ⊢
      rcases (mem_aset _ _ _ _).mp hm with he | ⟨hm0, hne⟩
      · cases he; simp [lastOr0]
      · simp only at hne; simp only [hne, if_false]; exact inv.tickEq k cl hm0
    · intro k
      simp only [step]
      split
      · simp
      · exact inv.incr k
    · intro k t ht
      simp only [step, Server.connect] at ht ⊢
      split at ht
      · cases ht
      · exact inv.le k t ht
    · intro htc k t ht
      simp only [step, Server.connect] at ht htc ⊢
      split at ht
      · cases ht
      · exact inv.fresh htc k t ht
    · intro k cl hm ha
      simp only [step, Server.connect] at hm ⊢
      rcases (mem_aset _ _ _ _).mp hm with he | ⟨hm0, hne⟩
      · cases he; simp
      · simp only at hne; simp only [hne, if_false]; exact inv.unauth k cl hm0 ha
  | disconnect c =>
    refine ⟨⟨?_, ?_, ?_, ?_, ?_, ?_⟩, nil _⟩
    · exact nodup_adel _ _ inv.nodup
    · intro k cl hm
      simp only [step, Server.disconnect] at hm ⊢
      obtain ⟨hm0, hne⟩ := (mem_adel _ _ _).mp hm
      simp only at hne; simp only [hne, if_false]; exact inv.tickEq k cl hm0
    · intro k
      simp only [step]
      split
      · simp
      · exact inv.incr k
    · intro k t ht
      simp only [step, Server.disconnect] at ht ⊢
      split at ht
      · cases ht
      · exact inv.le k t ht
    · intro htc k t ht
      simp only [step, Server.disconnect] at ht htc ⊢
      split at ht
      · cases ht
      · exact inv.fresh htc k t ht
    · intro k cl hm ha
      simp only [step, Server.disconnect] at hm ⊢
      obtain ⟨hm0, hne⟩ := (mem_adel _ _ _).mp hm
      simp only at hne; simp only [hne, if_false]; exact inv.unauth k cl hm0 ha
  | frame t ms parts =>
    cases hr : st.srv.running
    · obtain ⟨h1, h2⟩ := inv_frame_stopped st t ms parts inv hr
      refine ⟨h1, ?_⟩
      intro o ho
      simp only [step] at ho
      rw [h2] at ho; cases ho
    · exact inv_frame_running st t ms parts inv hr

/-- every state a history reaches satisfies the invariant, and every frame's stamps are right -/
theorem inv_run (ops : List Op) : ∀ (st : St), Inv st →
    Inv (run st ops).1 ∧ ∀ fr ∈ (run st ops).2, ∃ st', Inv st' ∧ StampsOk st' fr.2 := by
  induction ops with
  | nil => intro st inv; exact ⟨inv, by intro fr h; cases h⟩
  | cons op ops ih =>
    intro st inv
    obtain ⟨h1, h2⟩ := inv_step st op inv
    obtain ⟨k1, k2⟩ := ih (step st op).1 h1
    refine ⟨k1, ?_⟩
    intro fr hfr
    simp only [run] at hfr
    rcases List.mem_cons.mp hfr with rfl | h
    · exact ⟨(step st op).1, h1, h2⟩
    · exact k2 fr h

end Replicon.Joint
