"""Per-property registry used by bin/check: theorem modules, the theorems that decide the
property (audited with #print axioms on every run), harness generator profiles, evidence text."""

TRUSTED_BASE = [
    "Lean 4.33.0 kernel; axioms allowed in a property theorem: propext, Classical.choice, Quot.sound (audited by #print axioms on every run; no sorry/axiom/native_decide/bv_decide)",
    "the tie: /verif/harness (Rust, runs the real code, prints the line protocol) and /verif/lean/Driver (comparison code around the model's own executable definitions)",
    "tools/extract_consts.py (regenerates Replicon/Gen/Consts.lean from /repo on every run)",
]

SYS_RULE = ("sys traces: a real server App and 1..3 real client Apps (MinimalPlugins + RepliconPlugins, TickPolicy::Manual) with the harness as "
            "the network: every message is queued per client / direction / channel and delivered, held or (unreliable channel only) dropped by "
            "explicit actions. Generated histories interleave world operations (spawn, despawn, insert, in-place mutation, removal, marker toggle, "
            "visibility, relations, pre-spawn mappings, max message size), server frames with or without a tick, client frames, per-message "
            "deliveries under six link moods (perfect, reliable channel held back, lossy, reordering, ack starvation, random), disconnects, "
            "server restarts, ticks advanced by more than one at once (ServerTick::increment_by under the manual policy: 2..200, across the 64-tick window and the varint boundary at 128), "
            "acknowledgement messages nobody owes (indices of no message in flight, from any connected client, authorized or not), and end with a quiescent flush. One case in twelve of profiles sys and sys_evt runs a server whose tick starts "
            "1..30 below u32::MAX and wraps around during the case (header tickbase=; every client sees one entity from the start and has its first update message before anything may overtake it, nobody reconnects; the C04 oracles compare ticks in the wrapping order there): there the lock step "
            "with the models, whose ticks are unbounded naturals, is off and the structure, value, visibility and convergence oracles on the implementation decide. After every server frame the real message bytes are decoded with the model's "
            "decoders (Model/Wire.lean) and after every client frame the client's real state (entity map, components, ConfirmHistory, "
            "ServerUpdateTick) is compared with the server snapshot history. distinct_nontrivial = distinct cases with at least one sending "
            "server frame and one client frame that holds entities. ")

LOCK = "Model vs implementation (all sys-based properties): the Lean models of the server (Model/Server.lean) and of every client (Model/Client.lean) are driven by the same operations; after every server frame each section of each real update message and the union of the real mutate messages are compared with what the model sends (as multisets; iteration order is not modelled), and after every client frame the client's real entity map, components, confirmed ticks, ServerUpdateTick and acknowledgements are compared with the model client. "

EVT_RULE = ("Profile sys_evt: the sys set-up with five server event types (ordered, mapped, independent, trigger with target, unreliable) and three client event types "
            "(ordered, mapped, trigger) registered; histories add `sev` / `cev` emissions in every send mode between arbitrary frames, clients that connect, authorize "
            "(AuthMethod::None/Custom/ProtocolCheck) and disconnect at arbitrary points, a dedicated-server phase (app built without the client-side plugins), singleplayer "
            "phases (events emitted by apps that are not connected / not running), per-channel delivery delays that let events overtake several update messages, "
            "and a quiescent flush. Every app's game logic logs what it observes (event readers and observers, with ServerUpdateTick and the resolved entity). "
            "Model vs implementation for events (verdict EVT): (L1) after every server frame the events handed to the transport per client and channel (payload id and stamp, in order) "
            "are compared with Evt.SrvEv.frame driven by the same emissions / connects / stops and the server model's client ticks; (L3) after every client frame the events handed to "
            "the game per event type are compared with Evt.receive over the model queue, the messages delivered since the last frame, the observed ServerUpdateTick and the client "
            "model's entity map (Evt.resolveRefs); (L4) after every frame of every app the client events put on the wire and re-emitted locally are compared with Evt.CBuf.frame, "
            "where Bevy's event-buffer ageing (Events::update runs only after a FixedUpdate) is the one nondeterministic input: the model must match for some ageing choice. ")

PROPS = {
    "C01": {
        "modules": ["Replicon.Props.C01", "Replicon.Proofs.Jump"],
        "theorems": [
            "Replicon.C01.C01_progress_structure",
            "Replicon.C01.C01_progress_values",
            "Replicon.C01.C01_progress_despawn",
            "Replicon.C01.C01_stable_server",
            "Replicon.C01.C01_stable_client",
            "Replicon.C01.C01_joiner_converges",
            "Replicon.C01.C01_joiner_values",
            "Replicon.C01.C01_history_same_entities",
            "Replicon.C01.C01_history_same_entities_any_schedule",
            "Replicon.C01.C01_history_same_entities_with_tick_jumps",
            "Replicon.C01.C01_history_same_components",
            "Replicon.C01.C01_known_finding_F4_witness",
            "Replicon.C01.C01_known_finding_F4_server_value",
        ],
        "profiles": [{"name": "sys", "shards": {"thorough": 8}}, {"name": "sys_vis", "shards": {"thorough": 4}}, {"name": "sys_split", "shards": {"thorough": 4}}],
        "rule": SYS_RULE + LOCK + "For C01: oracle on the implementation: after the quiescent suffix (PERIOD+4 ticks, full in-order delivery) every authorized client's view equals the server's (same visible replicated entities, components, values; `once` components by structure); a panic of either app anywhere in the trace is a violation.",
        "trusted_extra": [
            "modelled, not verified: Bevy ECS (change detection as one logical clock, iteration orders as multisets, required components, observers), "
            "postcard encodings of the harness's component types; the models are compared with the real apps on every message and every client frame",
        ],
        "assumptions": ['partial: the end-to-end convergence theorem is replaced by per-run theorems + oracle on the implementation + exact model correspondence. Known findings F4 (periodic) and F20 (tick-0 race) are reported, tagged by the trace checker.'],
    },
    "C02": {
        "modules": ["Replicon.Props.C02", "Replicon.Proofs.WrapClient", "Replicon.Proofs.SentVals", "Replicon.Proofs.UpdateVals", "Replicon.Proofs.FrameVals", "Replicon.Proofs.Untouched", "Replicon.Proofs.MutFold", "Replicon.Proofs.FrameServer", "Replicon.Proofs.FramePerfect", "Replicon.Proofs.Belief"],
        "theorems": [
            "Replicon.C02.C02_record_atomic",
            "Replicon.C02.C02_monotone",
            "Replicon.C02.C02_record_complete",
            "Replicon.C02.C02_ack_on_apply",
            "Replicon.C02.C02_update_changes_only_named_values",
            "Replicon.C02.C02_pending_component_is_named",
            "Replicon.C02.C02_run_values_perfect_delivery",
            "Replicon.C02.C02_history_run_values_perfect_delivery",
            "Replicon.C02.C02_tick_decision_across_wrap",
            "Replicon.C02.C02_gate_across_wrap",
            "Replicon.C02.C02_raw_comparison_skips_newer",
            "Replicon.C02.C02_history_update_record_values",
            "Replicon.C02.C02_mutate_record_values",
            "Replicon.C02.C02_known_finding_F20_witness",
        ],
        "profiles": [{"name": "sys", "shards": {"thorough": 8}}, {"name": "sys_split", "shards": {"thorough": 4}}],
        "rule": SYS_RULE + LOCK + "For C02: oracle on the implementation after every client frame: for every mapped client entity with ConfirmHistory.last_tick = t the values of its every-tick components equal the server snapshot of tick t restricted to that client's view (snapshots are recorded at every replication run).",
        "trusted_extra": [
            "modelled, not verified: Bevy ECS (change detection as one logical clock, iteration orders as multisets, required components, observers), "
            "postcard encodings of the harness's component types; the models are compared with the real apps on every message and every client frame",
        ],
        "assumptions": ["partial: the invariant relating the server's belief to in-flight messages is not proved as one theorem. Known finding F20 tagged by the trace checker."],
    },
    "C03": {
        "modules": ["Replicon.Props.C03", "Replicon.Proofs.Sync", "Replicon.Proofs.ClientSync", "Replicon.Proofs.Session",
                    "Replicon.Proofs.Kinds", "Replicon.Proofs.KindsSession", "Replicon.Proofs.ClientKinds", "Replicon.Proofs.TwoWay", "Replicon.Proofs.Jump"],
        "theorems": [
            "Replicon.C03.C03_tick_monotone",
            "Replicon.C03.C03_tick_is_message_tick",
            "Replicon.C03.C03_hidden_nothing",
            "Replicon.C03.C03_new_entity_whole",
            "Replicon.C03.C03_despawn_sent",
            "Replicon.C03.C03_entity_record_complete",
            "Replicon.C03.C03_marker",
            "Replicon.C03.C03_history_server_order",
            "Replicon.C03.C03_history_entities",
            "Replicon.C03.C03_history_message_is_difference",
            "Replicon.C03.C03_history_frame_both_sides",
            "Replicon.C03.C03_history_session",
            "Replicon.C03.C03_history_components",
            "Replicon.C03.C03_history_structure",
            "Replicon.C03.C03_history_with_tick_jumps",
        ],
        "profiles": [{"name": "sys", "shards": {"thorough": 8}}, {"name": "sys_vis", "shards": {"thorough": 8}}],
        "rule": SYS_RULE + LOCK + "For C03: oracle on the implementation after every client frame: the client's mapped entities (a consistent two-way map), their replicated component sets and markers equal the server snapshot at the client's ServerUpdateTick restricted to what is visible to it (placeholders created only by references / pre-spawn mappings excepted).",
        "trusted_extra": [
            "modelled, not verified: Bevy ECS (change detection as one logical clock, iteration orders as multisets, required components, observers), "
            "postcard encodings of the harness's component types; the models are compared with the real apps on every message and every client frame",
        ],
        "assumptions": ['partial: entities, marker and component kinds are proved for all histories across both models (update messages in order); pre-spawn mappings and the interleaving with mutate messages at the component level are covered by per-section theorems + exact correspondence + oracle.'],
    },
    "C04": {
        "modules": ["Replicon.Props.C04", "Replicon.Proofs.Jump"],
        "theorems": [
            "Replicon.C04.C04_stamp",
            "Replicon.C04.C04_update_tick_moves",
            "Replicon.C04.C04_gate",
            "Replicon.C04.C04_applied_before_delivery",
            "Replicon.C04.C04_history",
            "Replicon.C04.C04_history_with_tick_jumps",
            "Replicon.C04.C04_ticks_compose",
            "Replicon.C04.C04_refs_resolve",
            "Replicon.C04.C04_refs_refused",
            "Replicon.C04.C04_end_to_end_partial",
        ],
        "profiles": [{"name": "sys_evt", "shards": {"thorough": 8}}],
        "rule": SYS_RULE + LOCK + EVT_RULE + "For C04: oracle on the implementation: whenever a client's game logic observes a dependent event, the stamp that event carried on the wire for that client is <= the client's ServerUpdateTick at that moment, and the entity a mapped event / trigger target resolved to is the client's entity for the server entity the event was sent for.",
        "trusted_extra": [
            "modelled, not verified: Bevy ECS (change detection as one logical clock, iteration orders as multisets, required components, observers), Bevy's Events<E> double buffer and its ageing schedule (a nondeterministic input of the model), "
            "postcard encodings of the harness's event types, the transport (ordered reliable channels deliver once and in order: the harness is the network); RepliconTick wrap-around inside the client event queue is not modelled",
        ],
        "assumptions": ["C04_history holds for all histories of the joint server model (any number of clients). What remains assumed for the unconditional statement: the ordered reliable channel delivers update messages in sending order, and NoTickZeroUpdate (known finding F20: with a replication run at tick 0 the statement is false for events too; replay findings/F20-event.trace). Both are checked on the implementation by the C04 oracles."],
    },
    "C05": {
        "modules": ["Replicon.Props.C05", "Replicon.Proofs.JumpEvents"],
        "theorems": [
            "Replicon.C05.C05_recipients",
            "Replicon.C05.C05_modes",
            "Replicon.C05.C05_recipients_independent",
            "Replicon.C05.C05_once_per_client",
            "Replicon.C05.C05_server_order",
            "Replicon.C05.C05_not_again",
            "Replicon.C05.C05_late_joiner",
            "Replicon.C05.C05_not_running",
            "Replicon.C05.C05_client_exactly_once",
            "Replicon.C05.C05_client_order",
            "Replicon.C05.C05_queue_sorted",
            "Replicon.C05.C05_client_event_once",
            "Replicon.C05.C05_sender_identity",
            "Replicon.C05.C05_history_order",
            "Replicon.C05.C05_history_at_most_once",
            "Replicon.C05.C05_history_late_joiner",
            "Replicon.C05.C05_history_order_with_tick_jumps",
            "Replicon.C05.C05_history_at_most_once_with_tick_jumps",
            "Replicon.C05.C05_history_late_joiner_with_tick_jumps",
            "Replicon.C05.C05_history_reachable",
        ],
        "profiles": [{"name": "sys_evt", "shards": {"thorough": 8}}],
        "rule": SYS_RULE + LOCK + EVT_RULE + "For C05: oracles on the implementation: nothing is observed twice by the same receiver; nothing is observed that nobody sent; a server event reaches only clients its mode selects, only clients whose session started before the server frame that sent it; after the quiescent flush every ordered event sent while the session was up (client authorized at emission, session never cut) was observed exactly once by each intended client and every client event by the server; per receiver and type the observation order is the sending order; client events arrive with the emitter's identity and the entity the emitter referenced.",
        "trusted_extra": [
            "modelled, not verified: Bevy ECS (change detection as one logical clock, iteration orders as multisets, required components, observers), Bevy's Events<E> double buffer and its ageing schedule (a nondeterministic input of the model), "
            "postcard encodings of the harness's event types, the transport (ordered reliable channels deliver once and in order: the harness is the network); RepliconTick wrap-around inside the client event queue is not modelled",
        ],
        "assumptions": ["The history theorems are about the server (any number of clients); the client queue and the client send cursor have their own theorems (all queue states / all histories of one app); the transport's exactly-once/in-order delivery on ordered channels is an assumption about the backend (checked for the example backend by C17). A client that connects between an event's emission and the server frame that reads it counts as connected before the event was sent (the event is sent in that frame)."],
    },
    "C13": {
        "modules": ["Replicon.Props.C13", "Replicon.Proofs.JumpEvents"],
        "theorems": [
            "Replicon.C13.C13_conditions_exclusive",
            "Replicon.C13.C13_one_path_per_frame",
            "Replicon.C13.C13_no_network_without_connection",
            "Replicon.C13.C13_never_twice_on_a_path",
            "Replicon.C13.C13_both_paths_F13",
            "Replicon.C13.C13_one_path_partial",
            "Replicon.C13.C13_singleplayer",
            "Replicon.C13.C13_local_server_events",
            "Replicon.C13.C13_local_recipient",
            "Replicon.C13.C13_history_local",
            "Replicon.C13.C13_history_local_with_tick_jumps",
            "Replicon.C13.C13_history_local_after_frame",
        ],
        "profiles": [{"name": "sys_evt", "shards": {"thorough": 8}}],
        "rule": SYS_RULE + LOCK + EVT_RULE + "For C13: oracles on the implementation: a server event is observed by the local game iff the local server is among its recipients (exactly once after the flush; a dedicated server is only required not to observe twice); an event the local game sends towards the server is observed by server-side logic with the SERVER identity when the app is not connected; a client app observes its own client event locally only if it never went on the wire (otherwise: known finding F13 when the event is at most 8 client frames old at the end of the session, i.e. can still be in Bevy's event double buffer; a new violation when it is older: generated histories send events 10..14 client frames before a disconnect); nothing is observed twice.",
        "trusted_extra": [
            "modelled, not verified: Bevy ECS (change detection as one logical clock, iteration orders as multisets, required components, observers), Bevy's Events<E> double buffer and its ageing schedule (a nondeterministic input of the model), "
            "postcard encodings of the harness's event types, the transport (ordered reliable channels deliver once and in order: the harness is the network); RepliconTick wrap-around inside the client event queue is not modelled",
        ],
        "assumptions": ["The full statement is false for the code as it is (known finding F13): C13_both_paths_F13 is the machine-checked witness, C13_one_path_partial the statement under the hypothesis NoStale that F13 violates."],
    },
    "C06": {
        "modules": ["Replicon.Props.C06"],
        "theorems": [
            "Replicon.C06.C06_never_panics",
            "Replicon.C06.C06_allocation_bounded",
            "Replicon.C06.C06_work_bounded",
            "Replicon.C06.C06_unauthorized_acks_dropped",
            "Replicon.C06.C06_junk_acks_harmless",
            "Replicon.C06.C06_other_clients_untouched",
        ],
        "profiles": [{"name": "sys_junk", "shards": {"thorough": 8}}],
        "rule": SYS_RULE + LOCK + "Profile sys_junk (C06): a live server with an attacker (client 0, authorized or not: AuthMethod::None / Custom / ProtocolCheck) and a well-behaved client 1. Byte strings are injected with RepliconServer::insert_received on every client channel (acknowledgements, ProtocolHash trigger, ordered u32 event, mapped event with an Entity, trigger with targets): exhaustively all strings of length 0..1 (quick) / 0..2 (thorough) on every channel from an authorized and from an unauthorized attacker, plus structure-aware mutations of well-formed messages (truncation, extension, bit flips, extreme varints, oversized length prefixes, overflowing generations). Every server frame that processes injected bytes runs under catch_unwind with a size-recording global allocator. Oracles on the implementation: no panic; the process does not die (a trace that ends inside a case is reported with the case as replay); the largest single allocation of such a frame is <= 64 KiB + 64 x injected bytes; after the final flush client 1 has converged (the C01/C02/C03 oracles, re-labelled C06). Model vs implementation: the events server-side logic observes (payload, referenced entities, sender) are compared with Recv.receive on the same bytes; acknowledgements go through the server model's ack_mutate_message.",
        "trusted_extra": [
            "modelled, not verified: the Rust allocator and Vec growth, Bevy's event/observer machinery after an event is accepted, user-supplied deserializers of other event types, the transport framing (C17); a ProtocolHash message that decodes but is not the real one ends the session and switches the lock-step models off for the rest of that case",
        ],
        "assumptions": ["The theorems cover the decoders of the harness's channel kinds (fixint u16 acks, postcard varints, replicon's entity codec, Bevy's Entity::try_from_bits, trigger target lists); other event types use the same primitives plus serde-derived code that is not modelled."],
    },
    "C07": {
        "modules": ["Replicon.Props.C07", "Replicon.Proofs.ClientVals", "Replicon.Proofs.Jump"],
        "theorems": [
            "Replicon.C07.C07_unauthorized_silent",
            "Replicon.C07.C07_full_state_on_authorization",
            "Replicon.C07.C07_authorize_fresh",
            "Replicon.C07.C07_protocol_check",
            "Replicon.C07.C07_history",
            "Replicon.C07.C07_history_with_tick_jumps",
            "Replicon.C07.C07_history_complete_state",
            "Replicon.C07.C07_history_complete_state_with_tick_jumps",
            "Replicon.C07.C07_history_complete_state_values",
        ],
        "profiles": [{"name": "sys_auth", "shards": {"thorough": 8}}],
        "rule": SYS_RULE + LOCK + 'For C07 (profile sys_auth: AuthMethod::ProtocolCheck / Custom / None, clients that authorize late or never; the protocol has a server event and three server triggers of which only the first is registered as independent, all three are broadcast at arbitrary points): oracle: no update or mutate message, and nothing on the channels of the two triggers that are not independent, is ever addressed to a client without AuthorizedClient; after authorization the convergence oracle applies.',
        "trusted_extra": [
            "modelled, not verified: Bevy ECS (change detection as one logical clock, iteration orders as multisets, required components, observers), "
            "postcard encodings of the harness's component types; the models are compared with the real apps on every message and every client frame",
        ],
        "assumptions": ["The requirement 'ClientTicks exists only on authorized clients' (Bevy required components) is modelled as a flag and tied by the lock-step comparison."],
    },
    "C09": {
        "modules": ["Replicon.Props.C09", "Replicon.Proofs.Jump"],
        "theorems": [
            "Replicon.C09.C09_client_reset",
            "Replicon.C09.C09_server_forgets_client",
            "Replicon.C09.C09_server_reset",
            "Replicon.C09.C09_fresh_session",
            "Replicon.C09.C09_new_session_round_trip",
            "Replicon.C09.C09_server_state_is_fresh",
            "Replicon.C09.C09_history_session_clean",
            "Replicon.C09.C09_history_session_clean_with_tick_jumps",
        ],
        "profiles": [{"name": "sys", "shards": {"thorough": 8}}, {"name": "sys_auth", "shards": {"thorough": 4}},
                     {"name": "sys_evt", "shards": {"thorough": 4}}],
        "rule": SYS_RULE + LOCK + EVT_RULE + "For C09: disconnects and server stops are injected at arbitrary points of generated histories (messages of every kind in flight, mutate messages buffered), followed by reconnects; oracle: a disconnected client's protocol state is empty in its next frame; the new session passes the C01/C02/C03 oracles; no panic.",
        "trusted_extra": [
            "modelled, not verified: Bevy ECS (change detection as one logical clock, iteration orders as multisets, required components, observers), "
            "postcard encodings of the harness's component types; the models are compared with the real apps on every message and every client frame",
        ],
        "assumptions": ['Known finding F13 (client panic after disconnect under the default protocol check) is reported, tagged by the trace checker. Process crashes are not a notion of this in-memory library: crash points are session cuts.'],
    },
    "C11": {
        "modules": ["Replicon.Props.C11", "Replicon.Proofs.Belief"],
        "theorems": [
            "Replicon.C11.C11_resend_until_ack",
            "Replicon.C11.C11_ack_sound",
            "Replicon.C11.C11_unknown_ack_noop",
            "Replicon.C11.C11_ack_once",
            "Replicon.C11.C11_idle_silent",
            "Replicon.C11.C11_history_belief",
        ],
        "profiles": [{"name": "sys", "shards": {"thorough": 8}}, {"name": "sys_split", "shards": {"thorough": 4}},
                     {"name": "sys_auth", "shards": {"thorough": 4}}],
        "rule": SYS_RULE + LOCK + "For C11: oracle: in the late rounds of the quiescent suffix (everything delivered and acknowledged, nothing changing) the server sends no replication message at all (unless tracking is on); acknowledgement delay / starvation / loss of mutate messages and junk acknowledgement indices are part of the generated schedules, and the model's belief (mutTick, in-flight table, ack cleanup timer) is compared through every subsequent message.",
        "trusted_extra": [
            "modelled, not verified: Bevy ECS (change detection as one logical clock, iteration orders as multisets, required components, observers), "
            "postcard encodings of the harness's component types; the models are compared with the real apps on every message and every client frame",
        ],
        "assumptions": ["Known finding F15 (16-bit index wrap with 65536 in-flight messages) is a documented design limit outside the theorems' in-flight table (indices are unique per registration within the table)."],
    },
    "C16": {
        "modules": ["Replicon.Props.C16"],
        "theorems": [
            "Replicon.C16.C16_adopted",
            "Replicon.C16.C16_lands_on_existing",
            "Replicon.C16.C16_gone_ignored",
            "Replicon.C16.C16_fresh_if_gone",
            "Replicon.C16.C16_others_unaffected",
            "Replicon.C16.C16_known_finding_F21_witness",
        ],
        "profiles": [{"name": "sys", "shards": {"thorough": 8}}, {"name": "sys_split", "shards": {"thorough": 4}}],
        "rule": SYS_RULE + LOCK + "For C16: histories with client-side pre-spawned entities, mappings registered in the spawn's tick window, optional client-side despawn before arrival (and, for an adopted entity that is replicated and visible, in the tick window in which the server despawns it), extra traffic; oracle after quiescence: a replicated entity with a registered mapping to a live pre-spawned entity lands on that entity.",
        "trusted_extra": [
            "modelled, not verified: Bevy ECS (change detection as one logical clock, iteration orders as multisets, required components, observers), "
            "postcard encodings of the harness's component types; the models are compared with the real apps on every message and every client frame",
        ],
        "assumptions": ['Known finding F21 (despawn queued for a never-sent hidden entity removes the pre-spawned entity) is reported, tagged by the trace checker.'],
    },
    "C10": {
        "modules": ["Replicon.Props.C10"],
        "theorems": [
            "Replicon.C10.C10_partition",
            "Replicon.C10.C10_atomic",
            "Replicon.C10.C10_size_bound",
            "Replicon.C10.C10_single",
            "Replicon.C10.C10_known_finding_F22_witness",
        ],
        "const_obligations": ["shape of can_pack and of the split condition in Mutations::send (anchored source patterns)"],
        "profiles": [{"name": "sys_split", "shards": {"thorough": 8}}, {"name": "sys", "shards": {"thorough": 4}}],
        "rule": SYS_RULE + "For C10 (profile sys_split: blob components of 0..400 bytes, max_size in {1,40,120,200,1200} changed mid-run, relation "
                "graphs through ChildOf with sync_related_entities, relation churn: random sequences of relating / re-parenting / unrelating 4..6 entities so that edge indices of the relation graph are recycled, then every member mutates in one tick against max size 1; one time in three the server is restarted in between with the relations dissolved while it is down, and every former member changes by 100 bytes against max size 130): (1) model vs implementation: the chunk sequence and header size are read off "
                "the decoded real mutate messages of a tick and Packing.split must reproduce the real partition into messages exactly; "
                "(2) oracle: no entity in two messages of a tick, related entities in one message, no message above max_size when every "
                "chunk fits, one message when everything fits.",
        "trusted_extra": [
            "modelled, not verified: which entities form a graph (RelatedEntities / petgraph) — specified as connected components of ChildOf among "
            "replicated entities and compared with the implementation's message boundaries; postcard sizes of the header fields",
        ],
        "assumptions": ["header size is constant within a tick (update tick, server tick, fixed-width MutateIndex)",
                        "known finding F22: with tracking the server splits against a 10-byte reserve for the counter (tagged by the trace checker)"],
    },
    "C08": {
        "modules": ["Replicon.Props.C08", "Replicon.Proofs.Jump"],
        "theorems": [
            "Replicon.C08.C08_refines",
            "Replicon.C08.C08_query",
            "Replicon.C08.C08_run_decision",
            "Replicon.C08.C08_despawn",
            "Replicon.C08.C08_history_gain_lose",
            "Replicon.C08.C08_history_gain_lose_with_tick_jumps",
            "Replicon.C08.C08_history_gained_entity_values",
            "Replicon.C08.C08_known_finding_F14_witness",
            "Replicon.Vis.step_preserves",
        ],
        "profiles": [{"name": "sys_vis", "shards": {"thorough": 8}}, {"name": "sys", "shards": {"thorough": 8}}],
        "rule": SYS_RULE + "For C08: (1) model vs implementation: a Lean ClientVisibility cell per (client, entity) is stepped in lock step "
                "(show / hide / replication run / despawn run) and its decision (nothing / despawn / whole entity / changes) is compared with "
                "what the decoded real messages contain for that entity; (2) oracle: no update or mutate message to a client carries component "
                "data of an entity whose is_visible is false for it; is_visible equals the most recent set_visibility of every live entity.",
        "trusted_extra": [
            "modelled, not verified: ClientVisibility as a product of independent per-entity cells (every method touches only the entity's own "
            "list entry and set memberships); the order collect_despawns -> collect_changes -> update inside one replication run",
        ],
        "assumptions": ["known finding F14 (marker removal wipes the setting) is reported, not suppressed silently: only failures the trace checker tags [F14]"],
    },
    "C14": {
        "modules": ["Replicon.Props.C14"],
        "theorems": [
            "Replicon.C14.C14_deterministic",
            "Replicon.C14.C14_input_injective",
            "Replicon.C14.C14_fnv_step_injective",
            "Replicon.C14.C14_single_byte",
            "Replicon.C14.C14_kind_change",
            "Replicon.C14.C14_priority_change",
            "Replicon.C14.C14_handshake",
        ],
        "const_obligations": ["Consts.fnvOffset / fnvPrime (fnv crate locked in Cargo.lock)", "ProtocolPart variant order and repr(u8)", "ProtocolHasher::hash feeds part then type name"],
        "profiles": [{"name": "c14"}],
        "rule": "c14pair: real Apps (MinimalPlugins + RepliconPlugins) built from a generated registration sequence a (0..8 registrations over "
                "28 menu items (one type both as a server event and a server trigger, one type as a client event in one build and a client trigger in the other): single rules, once, bundles in both orders, custom priorities 0/2/257/2^40, tuple rules, client/server events and "
                "triggers, independence marks) and from a single-step edit b of it (swap, insert, delete, change in place); their real "
                "ProtocolHash values and a second build of a are compared with the Lean model hash (type names passed as data) and with the "
                "oracle: equal registration sequences <=> equal hashes. c14hs: a server built from a and a client built from b connect under "
                "the default AuthMethod::ProtocolCheck; AuthorizedClient / ProtocolMismatch / DisconnectRequest are compared with "
                "checkProtocol. distinct_nontrivial = distinct pairs whose registration sequences differ + handshakes.",
        "trusted_extra": [
            "modelled, not verified: #[derive(Hash)] on a repr(u8) enum (one discriminant byte, u64 little endian), str::hash (bytes + 0xff), "
            "the fnv crate (constants scraped from its source), any::type_name (taken as data)",
            "the absence of an FNV collision on a concrete pair that differs in more than one byte is computed (tested) per generated pair, not proved: "
            "no 64-bit hash can separate all pairs",
        ],
        "assumptions": ["type names are valid UTF-8 (no 0xff byte)"],
    },
    "C18": {
        "modules": ["Replicon.Props.C18"],
        "theorems": [
            "Replicon.C18.C18_entities",
            "Replicon.C18.C18_components",
            "Replicon.C18.C18_nodup",
            "Replicon.C18.C18_extends",
            "Replicon.C18.C18_fresh",
        ],
        "profiles": [{"name": "c18"}],
        "rule": "c18: a fresh App per case with 0..6 rules drawn from a menu of 17 single / bundle / custom-priority rules over components "
                "A-D (reflected), E (registered, no #[reflect(Component)]), F (unregistered), 0..5 entities with random subsets of A-F and the "
                "never-replicated X, marked or not, optionally a scene that already holds every second entity; real scene::replicate_into, then "
                "real serialize -> deserialize. The scene (sorted) is compared with the Lean model (replicateInto) and with the oracle from the "
                "property text (one entry per marked entity, exactly one copy of every selected reflectable component with its current value, "
                "nothing else, no component twice, read-back succeeds). distinct_nontrivial = distinct cases with >= 1 rule and >= 1 marked entity.",
        "trusted_extra": [
            "modelled, not verified: archetype iteration (modelled per entity: all entities of an archetype are treated alike), Bevy reflection "
            "registry (a predicate refl), Bevy's scene serializer (exercised by the harness, not modelled)",
        ],
        "assumptions": [
            "entities have distinct ids; the 'extends' clause (C18_extends) appends to what the scene entity already holds, so a component that the "
            "existing scene entity already carried would appear twice (DESIGN.md F17): C18_nodup speaks about the exported components",
        ],
    },
    "C17": {
        "modules": ["Replicon.Props.C17"],
        "theorems": [
            "Replicon.C17.C17_pop_forced",
            "Replicon.C17.C17_exactly_once_in_order",
            "Replicon.C17.C17_per_channel",
            "Replicon.C17.C17_frame_roundtrip",
            "Replicon.C17.C17_frame_defined",
            "Replicon.C17.C17_frame_stream",
        ],
        "const_obligations": ["Consts.heapTieBreak (shape of TimedMessage::cmp + increasing sequence numbers in insert)", "Consts.frameHeader"],
        "profiles": [{"name": "c17"}],
        "rule": "c17: a real server app and a real client app connected through the example backend over loopback TCP (AuthMethod::None, no "
                "ConditionerConfig); 0..48 sequence-numbered independent events of three types (= three ordered channels) with payload "
                "sizes 0..1180 are emitted over 1..4 sender frames before the receiver runs a frame, in both directions; the per-channel "
                "receive order, payload integrity and duplicates (two extra receiver frames) are compared with the Lean model (runLink) "
                "and with the oracle 'received = sent, per channel, in order'. distinct_nontrivial = distinct cases with >= 4 messages.",
        "trusted_extra": [
            "modelled, not verified: std::collections::BinaryHeap (specified as: pop returns a cmp-greatest element; C17_pop_forced shows it is unique), "
            "TCP stream semantics (receiver passes see whole frames; segmentation / WouldBlock inside read_exact cannot be exhibited by the model), Instant monotonicity",
        ],
        "assumptions": ["no ConditionerConfig (the property's premise)", "messages of ordinary size (< 65536 bytes, channel id < 256)"],
    },
    "C12": {
        "modules": ["Replicon.Props.C12"],
        "theorems": [
            "Replicon.C12.C12_tick_order",
            "Replicon.C12.C12_history_refines",
            "Replicon.C12.C12_history_refines_new",
            "Replicon.C12.C12_contains",
            "Replicon.C12.C12_contains_any",
            "Replicon.C12.C12_tracker_init",
            "Replicon.C12.C12_tracker_refines",
            "Replicon.C12.C12_tracker_confirm_result",
            "Replicon.C12.C12_tracker_contains",
            "Replicon.C12.C12_tracker_contains_any",
            "Replicon.C12.C12_reported_only_when_applied",
            "Replicon.C12.C12_buffered_not_counted",
            "Replicon.C12.C12_report_is_tracker_verdict",
        ],
        "const_obligations": ["Consts.tickHalf = u32::MAX/2 (RepliconTick::cmp)", "Consts.historyBits (4 sites agree)", "Consts.historyInitMask"],
        "profiles": [{"name": "c12"}, {"name": "sys_track", "shards": {"thorough": 8}}],
        "rule": "End to end (profile sys_track = the sys_split set-up with track_mutate_messages always on: ticks split into 1..k mutate messages by small max sizes, "
                "parts of a split tick lost, mutate messages overtaking the update message they depend on): after every client frame the MutateTickReceived events of the frame are "
                "compared with the client model's tracker (lock step) and checked by an oracle on the implementation: a tick is reported once per session, only when every mutate message "
                "the server sent that client for that tick has been applied (= acknowledged), and it is reported as soon as that is the case while the tick is inside the 64-tick window; "
                "histories with tracking also have reconnects, server restarts (tick back to 0) and ticks advanced by up to 200 at once. "
                "Per entity, end to end (every sys-based profile): the trace checker keeps for every client and entity the ticks the entity was confirmed for (its confirmed tick at the end of each client frame, taken from the lock-step client model) "
                "and requires the bit of each of them in the mask of the real ConfirmHistory while it is inside the 64-tick window. "
                "c12cmp: real RepliconTick::cmp on boundary and random pairs of absolute ticks (residues mod 2^32 go to the code); "
                "c12ch / c12smt: generated sequences of confirm / contains / contains_any calls on a real ConfirmHistory / "
                "ServerMutateTicks over absolute ticks (distances 0..3, 31..33, 62..66, 127..129, 2^31-1.., bases around 0, 2^31, 2^32 and "
                "multiples; every sequence ends with the whole-window range queries). After every call the implementation's answer / "
                "(mask,last_tick) is compared with the Lean model and, for well-formed sequences (wf=1: all ticks within half range), with the "
                "plain-set specification (SetSpec / CountSpec). wf=0 sequences (beyond half range, inconsistent counts) are only compared "
                "model-vs-implementation. distinct_nontrivial = distinct sequences with >= 2 confirmations (or cmp of two different ticks).",
        "trusted_extra": [
            "modelled, not verified: u64 shift semantics of Rust (checked_shl, <<, >> as BitVec 64 operations), VecDeque rotation as a closed form",
        ],
        "assumptions": [
            "well-formedness premise of the property itself: ticks less than half the counter range apart (Near)",
            "ServerMutateTicks: the VecDeque pop_back/push_front loop is modelled by its closed form (MutateTicks.rotate); tied by the differential run",
            "end-to-end clause (MutateTickReceived fires once, only when every mutate message of the tick was applied) is part of the protocol trace validation, not of this leaf check",
        ],
    },
    "C15": {
        "modules": ["Replicon.Props.C15"],
        "theorems": [
            "Replicon.C15.C15_roundtrip",
            "Replicon.C15.C15_total",
            "Replicon.C15.C15_encode_bytes",
            "Replicon.decodeU32_encode",
            "Replicon.decodeU64_encode",
            "Replicon.decodeVarintLoop_total",
        ],
        "profiles": [{"name": "c15"}],
        "rule": "c15rt: real serialize_entity on every boundary-class (index, generation) pair and random pairs, "
                "optionally followed by a random suffix, then real deserialize_entity; c15dec: real deserialize_entity on all byte "
                "strings up to length 2 (quick) / 3 (thorough), boundary-alphabet strings, varint-limit patterns, random and mutated "
                "encodings up to 24 bytes. Each record is compared with the Lean model (encodeEntity/decodeEntity) and with the oracle "
                "(no panic; ok => ValidEntity and consumed prefix; round trip returns the same identifier and consumes exactly the "
                "encoder's bytes). distinct_nontrivial = distinct input lines whose decode yields an identifier.",
        "trusted_extra": [
            "modelled, not verified: postcard 1.1.3 varint encoder/decoder (Model/Varint.lean), bevy_ecs 0.16.1 Entity::try_from_bits (Model/EntityCodec.lean)",
        ],
        "assumptions": [
            "theorems are about Replicon.decodeEntity/encodeEntity; the tie to src/shared/entity_serde.rs is differential (this run's records)",
        ],
    },
}

MANIFEST_TEXT = {
    "C01": {
        "text": "Per-run halves of the convergence argument are Lean theorems about the protocol models: progress (an entity the client lacks is sent whole; a value newer than the server's belief is sent whenever its rate fires; a visible despawned entity is in DESPAWNS) and stability (nothing pending and nothing to say => the run sends nothing and changes nothing; a client frame without messages changes nothing). Across both models: a client that joins a quiescent server holds, after one perfect round, every replicated entity with exactly the server's replicated components and values and nothing else (C01_joiner_converges, C01_joiner_values: the server model's message applied by the client model, for every server world; blacklist, no entity-valued components). Over ALL histories of the joint model and across both models the client model fed a session's update messages in order holds exactly the marked entities visible to it (C01_history_same_entities), also with arbitrary mutate messages — lost, duplicated, reordered, stale — arriving anywhere in between (C01_history_same_entities_any_schedule; C01_history_same_entities_with_tick_jumps: the same for histories in which the manual tick policy advances the tick by any amounts at once), and fed the update messages in order it has on every entity exactly the replicated component kinds the server entity carries (C01_history_same_components). For values, the induction joining progress and stability over arbitrary histories with an already known client (C01_converges_partial) is NOT proved; convergence and absence of panics are checked on the implementation at the end of every generated trace, with both models in lock step (0 disagreements required).",
        "design_ref": "DESIGN.md §7 C01",
        "note": 'partial: the end-to-end convergence theorem is replaced by per-run theorems + oracle on the implementation + exact model correspondence. Known findings F4 (periodic) and F20 (tick-0 race) are reported, tagged by the trace checker.',
        "technique": "Lean 4 proof (per-run theorems about executable server/client protocol models) + lock-step model/implementation correspondence on real traces + property oracle on the implementation",
    },
    "C02": {
        "text": 'Lean theorems about the protocol models: a mutate record is applied to an entity completely (tick + all components) or not at all (C02_record_atomic); it is applied only if newer than the confirmed tick (C02_monotone); what the server sends for an entity contains every every-tick component changed after its belief (C02_record_complete); the client acknowledges exactly the messages it applies (C02_ack_on_apply, the F1 repair). Values: over ALL histories of the joint model and across both models, every record of the CHANGES section of an update message names a server entity and the client model fed the update messages of the session in order has, after applying it, exactly the current server value for every plain component kind the record names (C02_history_update_record_values); every record of the mutate messages of a run carries the current values and a receiver whose entity is confirmed at an older tick has exactly these afterwards, every other value unchanged (C02_mutate_record_values); an update message leaves a plain value alone unless it despawns the entity, removes that kind or has a CHANGES record for the entity naming the kind (C02_update_changes_only_named_values); and a present component of a visible entity is named by the CHANGES record or the mutate record of the entity unless the entity is known at some tick t, is not fresh, and the component was neither added in this tick window nor changed after t with a rate that fires (C02_pending_component_is_named). For one run over a link that loses nothing these are put together (C02_run_values_perfect_delivery): from the invariants of the history theorems, a receiver that holds the tracked entities, has each confirmed at an older tick and has the current value of every every-tick plain component not added or changed since the last run ends, after the update message and every record of the mutate messages of the run, with the current value of every every-tick plain component of every entity tracked after the run (the inductive step for values). After any history all server-side hypotheses of that step hold (C02_history_run_values_perfect_delivery: they are the invariants SyncInv, RemInv, KindInv and the belief bound C11_history_belief); the induction over the three remaining hypotheses about the receiver is not proved. Across the 32-bit wrap: the wrapping comparison in the code of the message tick with the confirmed tick of the entity, and of the gate, decides as the comparison in the model of unbounded ticks whenever the ticks are less than half the range apart (C02_tick_decision_across_wrap, C02_gate_across_wrap), and the raw u32 comparison does not (C02_raw_comparison_skips_newer, the seeded change C02-e; exhibited on the implementation by the wrap-around cases of profile sys). The history-level statement (C02_truthful_partial) is checked as an oracle on the implementation after every client frame of every trace, with both models in lock step.',
        "design_ref": "DESIGN.md §7 C02",
        "note": "partial: the invariant relating the server's belief to in-flight messages is not proved as one theorem. Known finding F20 tagged by the trace checker.",
        "technique": "Lean 4 proof (per-run theorems about executable server/client protocol models) + lock-step model/implementation correspondence on real traces + property oracle on the implementation",
    },
    "C03": {
        "text": "Lean theorems about the protocol models: ServerUpdateTick is the tick of the last applied update message and never decreases for in-order messages; a hidden entity contributes nothing; an entity new to the client is sent whole in one record; a visible entity that left replication is in DESPAWNS; an entity with an insertion/removal gets its pending mutations in the same record; the target of a CHANGES record is marked. Server order over ALL histories of the joint server model (C03_history_server_order): an update message sent to a client carries a tick larger than every update message sent to it before in its session. Which entities a client holds, over ALL histories and across both models (Proofs/Sync.lean, ClientSync.lean, Session.lean): after every replication run the server tracks for every authorized client exactly the marked entities visible to it (C03_history_entities); the run's DESPAWNS/CHANGES are exactly the difference of the tracked sets (C03_history_message_is_difference); the client model applying that message holds the tracked set again (C03_history_frame_both_sides); and the client model fed a whole session's update messages in order holds exactly the server's view, no section of any message failing (C03_history_session; hypotheses on histories: entity ids not reused, a stopped server sees a frame before a restart, no pre-spawn mappings). Which components, over ALL histories: replaying the DESPAWNS/REMOVALS/CHANGES records of a session for one entity gives exactly the replicated component kinds the server entity carries (C03_history_components; invariant about Bevy's added ticks, the two-frame retention of removal events and the removal buffer), and that is what the client model has on its entity; the replayed client's entity map is a consistent two-way map (TwoWay); C03_history_structure puts entities, marker, components and the two-way map together. The entity and component statements also hold for histories in which the manual tick policy advances the tick by any amounts at once (C03_history_with_tick_jumps, Proofs/Jump.lean: no invariant behind the structure theorems reads the value of the tick). What is left of 'structure = view at update tick' (C03_structure_partial: pre-spawn mappings, interleaving with mutate messages at the component level) is checked as an oracle on the implementation after every client frame, with both models in lock step.",
        "design_ref": "DESIGN.md §7 C03",
        "note": 'partial: update_is_diff for every reachable server state is not proved as one theorem; per-section theorems + exact correspondence + oracle.',
        "technique": "Lean 4 proof (per-run theorems about executable server/client protocol models) + lock-step model/implementation correspondence on real traces + property oracle on the implementation",
    },
    "C04": {
        "text": "Lean theorems about the event model: a dependent event goes out stamped with the receiving client's update tick (C04_stamp), which send_replication moves exactly when it sends an update message (C04_update_tick_moves); the client hands an event to the game only when its stamp is not ahead of ServerUpdateTick and queues it otherwise (C04_gate); for ALL histories of the joint server model (world operations, visibility, connects, authorizations, disconnects, stops/starts, acknowledgements, emissions, frames; any number of clients) every dependent event is stamped with the tick of the last update message sent to the receiving client in its session, and those ticks strictly increase (C04_history, inductive invariant Joint.Inv); for a strictly increasing positive tick sequence, passing the gate implies every update message sent before the event has been applied (C04_ticks_compose, C04_applied_before_delivery); references resolve through the entity map or the event is refused (C04_refs_resolve, C04_refs_refused).",
        "design_ref": "DESIGN.md §7 C04",
        "note": "Assumed, not proved: in-order delivery of the ordered channel, and NoTickZeroUpdate (known finding F20, reported by the check).",
        "technique": "Lean 4 proof (theorems about executable models of the event buffers, queues and run conditions) + lock-step model/implementation correspondence on real traces + property oracle on the implementation",
    },
    "C05": {
        "text": "Lean theorems about the event model: recipients of a dependent event are exactly the connected, authorized, not-excluded clients the mode selects (C05_recipients, C05_modes), of an independent one every selected connected client (C05_recipients_independent); one message per client and event, in buffering order (C05_once_per_client, C05_server_order); a flush leaves nothing to send again (C05_not_again); a client that connected after buffering never gets the event, whatever happens later (C05_late_joiner); the client queue loses and duplicates nothing and keeps arrival order (C05_client_exactly_once, C05_client_order, C05_queue_sorted); a client event goes on the wire at most once over any history, in emission order (C05_client_event_once); the sender identity is the transport's (C05_sender_identity). Over ALL histories of the joint server model (Model/Joint.lean; induction over the operation list): per client and channel the dependent events handed to the transport are a sub-sequence of the emissions in emission order (C05_history_order), hence at most once and never again on later frames (C05_history_at_most_once), and after a connect nothing that was already buffered reaches the newcomer whatever happens later (C05_history_late_joiner).",
        "design_ref": "DESIGN.md §7 C05",
        "note": "Transport behaviour (exactly once, in order on ordered channels) is an assumption checked for the example backend by C17.",
        "technique": "Lean 4 proof (theorems about executable models of the event buffers, queues and run conditions) + lock-step model/implementation correspondence on real traces + property oracle on the implementation",
    },
    "C13": {
        "text": "Lean theorems about the event model: the run conditions of send and resend_locally are exclusive, so one path per frame (C13_conditions_exclusive, C13_one_path_per_frame); nothing goes on the network without a connection (C13_no_network_without_connection); over any history nothing is sent twice or re-emitted locally twice (C13_never_twice_on_a_path); the machine-checked F13 witness that one event can take both paths across a disconnect (C13_both_paths_F13) and the exactly-one-path theorem under the hypothesis it violates (C13_one_path_partial); singleplayer handles every event locally once (C13_singleplayer); a server event is re-emitted locally exactly when the local server is a recipient (C13_local_server_events, C13_local_recipient) — and over ALL histories of the joint server model (server running or not: singleplayer, listen server) the local game's observations are exactly the emitted events whose recipients include the local server, each once, in emission order (C13_history_local, C13_history_local_after_frame).",
        "design_ref": "DESIGN.md §7 C13",
        "note": "Known finding F13 is reported, tagged by the trace checker.",
        "technique": "Lean 4 proof (theorems about executable models of the event buffers, queues and run conditions) + lock-step model/implementation correspondence on real traces + property oracle on the implementation",
    },
    "C06": {
        "text": "Lean theorems about the receive-path model: on every client channel kind, for every byte string, from an authorized client or not, the receive path returns an effect and never reaches a panic site (C06_never_panics); the capacity requested before validation is at most the message length (C06_allocation_bounded); accepted triggers carry fewer targets than bytes, all valid entity ids, and an ack message yields at most one 16-bit index per two bytes (C06_work_bounded); acks from unauthorized clients are dropped, acks naming nothing in flight leave the sender's state unchanged, and a client's message touches only its own state (C06_unauthorized_acks_dropped, C06_junk_acks_harmless, C06_other_clients_untouched).",
        "design_ref": "DESIGN.md §7 C06",
        "note": "Defects F5, F10a, F10b found with this machinery were repaired by fix: commits; reverting any of them makes this check report a violation with a replay.",
        "technique": "Lean 4 proof (totality, panic-freedom and proportionality of an executable model of the decoders) + differential comparison of decoders on injected bytes against the live server + panic/abort/allocation oracles on the implementation",
    },
    "C07": {
        "text": 'Lean theorems about the server model: a replication run produces output only for authorized clients (C07_unauthorized_silent); a freshly authorized client is sent every non-hidden replicated entity whole (C07_full_state_on_authorization, C07_authorize_fresh); check_protocol authorizes exactly on equal hashes and otherwise notifies and requests a disconnect (C07_protocol_check). Over ALL histories of the joint server model, the next frame hands the transport replication messages and dependent events only for clients authorized in the state the history led to (C07_history), and a client the server tracks nothing for yet is sent, in the next run, a CHANGES record for every marked entity visible to it (C07_history_complete_state), and the client model applying that message has, for every plain replicated component of every entity it starts to hold, exactly the current value on the server (C07_history_complete_state_values, across both models).',
        "design_ref": "DESIGN.md §7 C07",
        "note": "The requirement 'ClientTicks exists only on authorized clients' (Bevy required components) is modelled as a flag and tied by the lock-step comparison.",
        "technique": "Lean 4 proof (per-run theorems about executable server/client protocol models) + lock-step model/implementation correspondence on real traces + property oracle on the implementation",
    },
    "C09": {
        "text": "Lean theorems about the models: in the client's first frame after the session ended its update tick, entity map (both directions), buffered mutate messages and acknowledgements are reset whatever was delivered (C09_client_reset); the server keeps nothing of a disconnected client and nothing after stop+reset (C09_server_forgets_client, C09_server_reset); a new session starts from fresh replication state (C09_fresh_session, C09_server_state_is_fresh) and converges in one perfect round whatever the old session left on the client — the server model's message for a client it has no state for, applied by the client model after its reset, yields exactly the server's view and leaves the client's other entities alone (C09_new_session_round_trip). Over ALL histories of the joint model with any number of disconnects, reconnects, stops and restarts, and across both models: the fresh client model fed the update messages of the client's current session (the ghost log is emptied at connect) in order holds exactly the replicated entities visible to it, none of the messages failing (C09_history_session_clean). Absence of panics and convergence of the new session are checked on the implementation.",
        "design_ref": "DESIGN.md §7 C09",
        "note": 'Known finding F13 (client panic after disconnect under the default protocol check) is reported, tagged by the trace checker. Process crashes are not a notion of this in-memory library: crash points are session cuts.',
        "technique": "Lean 4 proof (per-run theorems about executable server/client protocol models) + lock-step model/implementation correspondence on real traces + property oracle on the implementation",
    },
    "C11": {
        "text": "Lean theorems about the server model: a component changed after the server's belief is in the run's messages whenever its rate fires (C11_resend_until_ack); acknowledging a registered message moves only the ticks of entities in that message, only forward, exactly to that message's run (C11_ack_sound); unknown / repeated indices change nothing (C11_unknown_ack_noop, C11_ack_once); with nothing pending and nothing to say the run sends nothing (C11_idle_silent). Over ALL histories of the joint model, without any hypothesis on the history: every tick the server takes a tracked entity to be acknowledged at, and the run tick of every mutate message awaiting its acknowledgement, is at most the change tick of the last replication run (C11_history_belief).",
        "design_ref": "DESIGN.md §7 C11",
        "note": "Known finding F15 (16-bit index wrap with 65536 in-flight messages) is a documented design limit outside the theorems' in-flight table (indices are unique per registration within the table).",
        "technique": "Lean 4 proof (per-run theorems about executable server/client protocol models) + lock-step model/implementation correspondence on real traces + property oracle on the implementation",
    },
    "C16": {
        "text": "Lean theorems about the client model: applying a mapping to a live pre-spawned entity maps the server entity to it, marks it and creates nothing (C16_adopted); records for a mapped server entity land on the mapped entity without spawning or touching the map (C16_lands_on_existing); a mapping to a missing entity is ignored and the first record spawns exactly one fresh marked entity (C16_gone_ignored, C16_fresh_if_gone); other clients' state is untouched (C16_others_unaffected). Section order MAPPINGS before everything else is part of the wire model.",
        "design_ref": "DESIGN.md §7 C16",
        "note": 'Known finding F21 (despawn queued for a never-sent hidden entity removes the pre-spawned entity) is reported, tagged by the trace checker.',
        "technique": "Lean 4 proof (per-run theorems about executable server/client protocol models) + lock-step model/implementation correspondence on real traces + property oracle on the implementation",
    },
    "C10": {
        "text": "Lean theorems about an exact model of can_pack and the chunking loop of Mutations::send, for every list of chunk sizes, header and "
                "max size: the messages are a partition of the chunk list into consecutive runs (C10_partition), hence any delivered subset "
                "consists of whole entities / whole related groups (C10_atomic); if every chunk fits no message exceeds max_size "
                "(C10_size_bound); if everything fits exactly one message is sent (C10_single). The model must reproduce the partition observed "
                "in the real messages of every generated tick; the grouping of related entities is checked as a specification on the real "
                "message boundaries.",
        "design_ref": "DESIGN.md §7 C10",
        "note": "RelatedEntities (petgraph) is specified, not modelled. The client-side half (an entity record is applied completely or not at "
                "all) is part of the client model (C02). Known finding F22 (tracking reserve) is outside C10_size_bound's hypothesis as the server "
                "evaluates it.",
        "technique": "Lean 4 proof (fold invariants over the chunk loop) + model/implementation comparison of message partitions on real traces",
    },
    "C08": {
        "text": "Lean theorems about an exact per-entity model of ClientVisibility for both policies: for every sequence of set_visibility calls "
                "(including mutually cancelling calls inside a tick window), replication runs and despawns, the cell represents (most recent "
                "setting, client holds the entity) and every run decides for the entity exactly: hidden & not held -> nothing, hidden & held -> "
                "despawn, visible & not held -> whole entity, visible & held -> changes (C08_refines, C08_run_decision, C08_despawn, C08_query). "
                "The one-step lemma is decided by the kernel over the complete finite state space (2 policies x 12 cells x 4 ghosts x 4 ops) and "
                "lifted by induction; the failed first attempt exposed defect F19. Over ALL histories of the whole server (joint model, any number of "
                "clients; C08_history_gain_lose): an entity a client holds and must not hold after a frame is in DESPAWNS of that frame's update "
                "message, one it does not hold and may see is in CHANGES (whole), per client; the client model applying the message has exactly the server's values for the plain components of a gained entity (C08_history_gained_entity_values). The model is run in lock step with the real component on "
                "thousands of generated histories per run, and the no-hidden-data oracle is evaluated on the decoded real messages.",
        "design_ref": "DESIGN.md §7 C08",
        "note": "The lifting from one entity's cell to the whole component (independence of entities) and the position of the visibility calls "
                "inside send_replication are modelled, tied by the lock-step comparison. Known finding F14 is outside the theorem (the marker "
                "removal is delivered to ClientVisibility as a despawn).",
        "technique": "Lean 4 proof (kernel-decided finite one-step invariant lifted by induction over operation sequences) + lock-step model/implementation comparison on real traces",
    },
    "C14": {
        "text": "Lean theorems: the hasher's byte input is an injective code of the registration sequence (order, kind, type name, priority, "
                "independence; C14_input_injective), every FNV-1a step is a bijection and inputs differing in one byte hash differently "
                "(C14_single_byte), hence a change of kind or of priority within a byte changes the hash (C14_kind_change, C14_priority_change); "
                "check_protocol authorizes exactly on equal hashes and otherwise notifies and requests a disconnect (C14_handshake). The universal "
                "'different sequences => different hashes' is false for any 64-bit hash; for multi-byte edits the inequality is computed on each "
                "generated pair. Model hash = real ProtocolHash on 1200 app pairs per quick run; FNV constants and the ProtocolPart layout are "
                "regenerated from the sources on every run.",
        "design_ref": "DESIGN.md §7 C14",
        "note": "partial by mathematics, not by effort: collision-freedom on arbitrary pairs is unprovable; stated in the theorem file. "
                "Trusted: Lean kernel, harness/driver, extractor, derive(Hash)/str::hash layout as modelled (checked by hash equality on every case).",
        "technique": "Lean 4 proof (injective encoding by a verified parser; FNV step bijectivity via the modular inverse of the prime) + constants extraction + differential hash equality on real apps",
    },
    "C18": {
        "text": "Lean theorems about a model of scene::replicate_into for every rule list (any overlap, order, priorities), every reflectability "
                "predicate and every world: exactly the pre-existing entries plus one per marked entity (C18_entities), the exported components "
                "are exactly the selected reflectable ones with current values (C18_components), none twice (C18_nodup), existing scene entities "
                "are extended in place and unmarked ones untouched (C18_extends, C18_fresh). Tied to the code by running the real "
                "replicate_into + scene serializer on 2500 generated worlds/rule sets per quick run and comparing with the model and an "
                "independent oracle.",
        "design_ref": "DESIGN.md §7 C18",
        "note": "Bevy reflection/scene serialization is exercised, not modelled; 'can be read back' is reduced to 'no component twice' in the "
                "theorem. Existing scene entities that already hold a replicated component (double export, F17) are outside C18_nodup.",
        "technique": "Lean 4 proof (fold invariants over rules/components/entities) + differential correspondence against the real export",
    },
    "C17": {
        "text": "Lean theorems about a model of the example backend's receive queue and tcp framing: with the key (timestamp, sequence) — "
                "scraped from TimedMessage::cmp on every run — an earlier message strictly beats every later one (C17_pop_forced), so for any "
                "number of messages piling up over any number of receiver passes everything comes out exactly once in sending order "
                "(C17_exactly_once_in_order, C17_per_channel); frames round-trip and a stream of frames parses back (C17_frame_*). "
                "The model is tied to the code by constants extraction and by runs over real loopback sockets (400 cases / quick run).",
        "design_ref": "DESIGN.md §7 C17",
        "note": "partial: OS behaviour (TCP segmentation, WouldBlock inside read_exact, socket buffer limits, wall-clock Instant) is outside "
                "the model; BinaryHeap is specified, not modelled. Trusted: Lean kernel, harness/driver, extractor.",
        "technique": "Lean 4 proof (priority-queue invariant by induction over passes; framing round trip) + constants extraction + socket-level correspondence runs",
    },
    "C12": {
        "text": "Lean theorems: RepliconTick::cmp equals the order of the unwrapped ticks whenever they are < 2^31 apart (C12_tick_order); "
                "for every confirmation sequence of any length over unwrapped ticks (gaps beyond the window, across the 2^32 wrap) "
                "ConfirmHistory never panics and (mask,last_tick) represent exactly the plain set of confirmed ticks (C12_history_refines), "
                "and contains / contains_any answer as that set would, including the 64-wide range (C12_contains, C12_contains_any). "
                "Constants (window, half range, initial mask) are regenerated from the source on every run; the model is run against the real "
                "types on ~34k generated sequences per quick run, with the set specification as oracle on the implementation's answers.",
        "design_ref": "DESIGN.md §7 C12, §4.1, §4.2",
        "note": "ServerMutateTicks: C12_tracker_refines / _confirm_result / _contains / _contains_any (ring = confirmation log, for all call "
                "sequences that respect the protocol). End to end: C12_reported_only_when_applied / C12_buffered_not_counted / C12_report_is_tracker_verdict about the client model (only applied messages feed the tracker), tied by the sys_track lock step and oracle. "
                "Trusted: Lean kernel, harness/driver, Rust shift semantics and VecDeque rotation as modelled.",
        "technique": "Lean 4 proof (refinement of a plain-set spec, induction over the confirmation list, BitVec bit lemmas) + constants extraction + differential correspondence",
    },
    "C15": {
        "text": "Lean theorems C15_roundtrip (all valid index/generation pairs, any trailing bytes) and C15_total (all byte lists: "
                "never a panic, success implies a valid identifier and a proper suffix) about an exact model of serialize_entity / "
                "deserialize_entity / postcard varints / Entity::try_from_bits; the model is tied to the code by running both on "
                ">160k generated records per quick run (all strings <= 2 bytes, boundary classes, mutations) and comparing results.",
        "design_ref": "DESIGN.md §7 C15, §4.1",
        "note": "Trusted: Lean kernel; harness + driver comparison code; postcard/bevy_ecs behaviour is modelled from their source "
                "and sampled by the differential run, not verified.",
        "technique": "Lean 4 proof (induction over the varint loop) + differential correspondence check against the real codec",
    },
}

_PENDING = "not claimed yet: model, tie and theorems for this property are still being built (see DESIGN.md §10 order of work)"
NOT_APPLICABLE = [
    {"property_id": p, "reason": _PENDING}
    for p in ["C01", "C02", "C03", "C04", "C05", "C06", "C07", "C08", "C09", "C10", "C11", "C12", "C13", "C14", "C16", "C17", "C18"]
    if p not in PROPS
]
