"""Per-property registry used by bin/check: theorem modules, the theorems that decide the
property (audited with #print axioms on every run), harness generator profiles, evidence text."""

TRUSTED_BASE = [
    "Lean 4.33.0 kernel; axioms allowed in a property theorem: propext, Classical.choice, Quot.sound (audited by #print axioms on every run; no sorry/axiom/native_decide/bv_decide)",
    "the tie: /verif/harness (Rust, runs the real code, prints the line protocol) and /verif/lean/Driver (comparison code around the model's own executable definitions)",
    "tools/extract_consts.py (regenerates Replicon/Gen/Consts.lean from /repo on every run)",
]

PROPS = {
    "C15": {
        "modules": ["Replicon.Props.C15"],
        "theorems": [
            "Replicon.C15.C15_roundtrip",
            "Replicon.C15.C15_total",
            "Replicon.C15.C15_encode_bytes",
            "Replicon.decodeU32_encode",
            "Replicon.decodeU64_encode",
            "Replicon.decodeVarintLoop_total",
        ],
        "profiles": [{"name": "c15"}],
        "rule": "c15rt: real serialize_entity on every boundary-class (index, generation) pair and random pairs, "
                "optionally followed by a random suffix, then real deserialize_entity; c15dec: real deserialize_entity on all byte "
                "strings up to length 2 (quick) / 3 (thorough), boundary-alphabet strings, varint-limit patterns, random and mutated "
                "encodings up to 24 bytes. Each record is compared with the Lean model (encodeEntity/decodeEntity) and with the oracle "
                "(no panic; ok => ValidEntity and consumed prefix; round trip returns the same identifier and consumes exactly the "
                "encoder's bytes). distinct_nontrivial = distinct input lines whose decode yields an identifier.",
        "trusted_extra": [
            "modelled, not verified: postcard 1.1.3 varint encoder/decoder (Model/Varint.lean), bevy_ecs 0.16.1 Entity::try_from_bits (Model/EntityCodec.lean)",
        ],
        "assumptions": [
            "theorems are about Replicon.decodeEntity/encodeEntity; the tie to src/shared/entity_serde.rs is differential (this run's records)",
        ],
    },
}

MANIFEST_TEXT = {
    "C15": {
        "text": "Lean theorems C15_roundtrip (all valid index/generation pairs, any trailing bytes) and C15_total (all byte lists: "
                "never a panic, success implies a valid identifier and a proper suffix) about an exact model of serialize_entity / "
                "deserialize_entity / postcard varints / Entity::try_from_bits; the model is tied to the code by running both on "
                ">160k generated records per quick run (all strings <= 2 bytes, boundary classes, mutations) and comparing results.",
        "design_ref": "DESIGN.md §7 C15, §4.1",
        "note": "Trusted: Lean kernel; harness + driver comparison code; postcard/bevy_ecs behaviour is modelled from their source "
                "and sampled by the differential run, not verified.",
        "technique": "Lean 4 proof (induction over the varint loop) + differential correspondence check against the real codec",
    },
}

_PENDING = "not claimed yet: model, tie and theorems for this property are still being built (see DESIGN.md §10 order of work)"
NOT_APPLICABLE = [
    {"property_id": p, "reason": _PENDING}
    for p in ["C01", "C02", "C03", "C04", "C05", "C06", "C07", "C08", "C09", "C10", "C11", "C12", "C13", "C14", "C16", "C17", "C18"]
    if p not in PROPS
]
