#!/usr/bin/env python3
"""Writes MANIFEST.json from bin/registry.py (claimed properties) + the not_applicable list."""
import json
import os
import sys

VERIF = os.path.dirname(os.path.dirname(os.path.abspath(__file__)))
sys.path.insert(0, os.path.join(VERIF, "bin"))
from registry import PROPS, NOT_APPLICABLE, MANIFEST_TEXT  # noqa: E402

checks = []
for pid in sorted(PROPS):
    t = MANIFEST_TEXT[pid]
    checks.append({
        "property_id": pid,
        "quick_cmd": f"bin/check {pid} --tier quick",
        "thorough_cmd": f"bin/check {pid} --tier thorough",
        "evidence_file": f"/verif/evidence/{pid}.json",
        "replay_cmd_template": f"bin/check {pid} --replay {{path}}",
        "engine": "lean4-proof+trace-validation",
        "level_claimed": {"category": "proof", "text": t["text"], "design_ref": t["design_ref"]},
        "level_note": t["note"],
        "technique": t["technique"],
    })
m = {
    "version": 1,
    "setup_cmd": "bin/setup",
    "hooks": {
        "guard": "replicon_verif",
        "enable": "no hooks are needed: every observation point is public API; the harness is a separate crate with a path dependency on /repo (guard name reserved, no source commits)",
        "baseline_off_cmd": "cd /repo && cargo test --workspace --no-fail-fast --offline",
        "source_commits": [],
        "add_only": True,
    },
    "engines": [{
        "name": "lean4-proof+trace-validation",
        "path": "/verif/lean, /verif/harness, /verif/bin/check",
        "serves_properties": sorted(PROPS),
        "kind_free_text": "Lean 4 theorems about a hand-written executable model; the model is tied to /repo on every run by running its executable definitions (compiled driver) on the observations of the real code produced by a Rust harness, plus constants regenerated from the source",
    }],
    "checks": checks,
    "not_applicable": NOT_APPLICABLE,
    "notes": "See DESIGN.md. fix: commits in /repo and known findings are listed in known_findings.json.",
}
json.dump(m, open(os.path.join(VERIF, "MANIFEST.json"), "w"), indent=1)
print("MANIFEST.json written:", len(checks), "checks,", len(NOT_APPLICABLE), "not_applicable")
