#!/usr/bin/env python3
"""tools/triage.py <driver output> <regex> [n]: write the n-th shortest failing replay block whose FAIL lines match regex to /tmp/scr/t.trace"""
import re, sys
txt = open(sys.argv[1]).read()
rx = re.compile(sys.argv[2])
n = int(sys.argv[3]) if len(sys.argv) > 3 else 0
cases = []
pending = []
cur = None
for line in txt.splitlines():
    if line == "REPLAY-BEGIN":
        cur = []
    elif line == "REPLAY-END":
        cases.append((cur, pending)); pending = []; cur = None
    elif line == "REPLAY-SKIPPED":
        pending = []
    elif cur is not None:
        cur.append(line)
    elif line.startswith("FAIL"):
        pending.append(line)
sel = [(c, f) for c, f in cases if any(rx.search(x) for x in f)]
sel.sort(key=lambda x: len(x[0]))
print(len(sel), "matching cases")
if sel:
    c, f = sel[min(n, len(sel) - 1)]
    open("/tmp/scr/t.trace", "w").write("\n".join(c) + "\n")
    print("\n".join(x[:300] for x in f[:6]))
    print(len(c), "lines -> /tmp/scr/t.trace")
