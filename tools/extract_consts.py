#!/usr/bin/env python3
"""Regenerates lean/Replicon/Gen/Consts.lean from /repo's working tree (DESIGN.md §4.2).

Every literal the theorems depend on is scraped from the source by an anchored regular
expression; a missing anchor is a hard failure (reported by bin/check as a broken proof
obligation).  The file is only rewritten when its content changes, so `lake build` stays
incremental."""
import os
import re
import sys

REPO = os.environ.get("VERIF_REPO", "/repo")
VERIF = os.path.dirname(os.path.dirname(os.path.abspath(__file__)))
TARGET = os.path.join(VERIF, "lean", "Replicon", "Gen", "Consts.lean")


def read(rel):
    return open(os.path.join(REPO, rel)).read()


def need(rel, pattern, what, flags=re.S):
    m = re.search(pattern, read(rel), flags)
    if not m:
        print(f"extract_consts: anchor missing in {rel}: {what}")
        sys.exit(1)
    return m


def main():
    consts = []  # (name, value, doc)

    # --- RepliconTick::cmp: `difference > u32::MAX / 2`
    m = need("src/shared/replicon_tick.rs", r"fn cmp\(&self, other: &Self\) -> Ordering \{\s*let difference = self\.0\.wrapping_sub\(other\.0\);\s*if difference == 0 \{\s*Ordering::Equal\s*\} else if difference > (u32::MAX / 2|\d+) \{\s*Ordering::Less\s*\} else \{\s*Ordering::Greater",
             "RepliconTick::cmp shape (wrapping_sub, ==0 Equal, > half Less, else Greater)")
    half = m.group(1)
    consts.append(("tickHalf", 2147483647 if half == "u32::MAX / 2" else int(half), "`u32::MAX / 2` in `RepliconTick::cmp`"))
    m = need("src/shared/replicon_tick.rs", r"pub struct RepliconTick\((u\d+)\);", "RepliconTick width")
    if m.group(1) != "u32":
        print("extract_consts: RepliconTick is no longer u32"); sys.exit(1)

    # --- ConfirmHistory: window = u64::BITS, initial mask
    src = read("src/client/confirm_history.rs")
    m = need("src/client/confirm_history.rs", r"mask: (u\d+),", "ConfirmHistory mask type")
    if m.group(1) != "u64":
        print("extract_consts: ConfirmHistory mask is no longer u64"); sys.exit(1)
    m = need("src/client/confirm_history.rs", r"pub fn new\(last_tick: RepliconTick\) -> Self \{\s*Self \{ mask: (\d+), last_tick \}", "ConfirmHistory::new initial mask")
    consts.append(("historyInitMask", int(m.group(1)), "initial mask of `ConfirmHistory::new`"))
    m = need("src/client/confirm_history.rs", r"ago >= (u64::BITS|\d+) \|\|", "ConfirmHistory::contains window")
    w1 = 64 if m.group(1) == "u64::BITS" else int(m.group(1))
    m = need("src/client/confirm_history.rs", r"start_tick <= self\.last_tick - (u64::BITS|\d+)", "ConfirmHistory::contains_any window")
    w2 = 64 if m.group(1) == "u64::BITS" else int(m.group(1))
    m = need("src/client/confirm_history.rs", r"if ago < (u64::BITS|\d+) \{\s*self\.set\(ago\)", "ConfirmHistory::confirm window")
    w3 = 64 if m.group(1) == "u64::BITS" else int(m.group(1))
    m = need("src/client/server_mutate_ticks.rs", r"VecDeque::from\(\[Default::default\(\); (u64::BITS as usize|\d+)\]\)", "ServerMutateTicks slot count")
    w4 = 64 if m.group(1).startswith("u64::BITS") else int(m.group(1))
    if len({w1, w2, w3, w4}) != 1:
        print(f"extract_consts: window constants disagree: {w1} {w2} {w3} {w4}"); sys.exit(1)
    consts.append(("historyBits", w1, "the 64-tick window (`u64::BITS`) of ConfirmHistory / ServerMutateTicks"))

    # --- example backend: TimedMessage::cmp tie-break and framing header
    src = read("bevy_replicon_example_backend/src/link_conditioner.rs")
    m = re.search(r"impl Ord for TimedMessage \{\s*fn cmp\(&self, other: &TimedMessage\) -> Ordering \{(.*?)\n    \}", src, re.S)
    if not m:
        print("extract_consts: anchor missing: impl Ord for TimedMessage"); sys.exit(1)
    body = re.sub(r"\s+", "", m.group(1))
    if body == "other.timestamp.cmp(&self.timestamp).then_with(||other.sequence.cmp(&self.sequence))":
        tie = 1
    elif body == "other.timestamp.cmp(&self.timestamp)":
        tie = 0
    else:
        print("extract_consts: TimedMessage::cmp has an unknown shape: " + body); sys.exit(1)
    need("bevy_replicon_example_backend/src/link_conditioner.rs",
         r"let sequence = self\.next_sequence;\s*self\.next_sequence \+= 1;\s*self\.heap\.push\(TimedMessage \{\s*timestamp,\s*sequence,",
         "LinkConditioner::insert assigns increasing sequence numbers") if tie else None
    consts.append(("heapTieBreak", tie, "1 iff `TimedMessage::cmp` breaks timestamp ties by insertion sequence"))
    m = need("bevy_replicon_example_backend/src/tcp.rs", r"let mut header = \[0; (\d+)\];", "tcp header size")
    consts.append(("frameHeader", int(m.group(1)), "size of the tcp framing header (channel id + u16 length)"))

    # --- FNV-1a constants from the fnv crate the repository is locked to, ProtocolPart discriminants
    lock = read("Cargo.lock")
    m = re.search(r'name = "fnv"\nversion = "([^"]+)"', lock)
    if not m:
        print("extract_consts: fnv not in Cargo.lock"); sys.exit(1)
    import glob
    cands = glob.glob(os.path.expanduser(f"~/.cargo/registry/src/*/fnv-{m.group(1)}/lib.rs"))
    if not cands:
        print("extract_consts: fnv source not found in the cargo registry"); sys.exit(1)
    fsrc = open(cands[0]).read()
    m1 = re.search(r"FnvHasher\(0x([0-9a-f]+)\)", fsrc)
    m2 = re.search(r"hash = hash\.wrapping_mul\(0x([0-9a-f]+)\);", fsrc)
    m3 = re.search(r"hash = hash \^ \(\*byte as u64\);\s*hash = hash\.wrapping_mul", fsrc)
    if not (m1 and m2 and m3):
        print("extract_consts: fnv crate no longer has the FNV-1a shape"); sys.exit(1)
    consts.append(("fnvOffset", int(m1.group(1), 16), "FNV offset basis (crate fnv)"))
    consts.append(("fnvPrime", int(m2.group(1), 16), "FNV prime (crate fnv)"))
    m = need("src/shared/protocol.rs", r"#\[derive\(Hash\)\]\s*#\[repr\(u8\)\]\s*enum ProtocolPart \{(.*?)\n\}", "ProtocolPart enum")
    variants = [v.strip().rstrip(",").split(" ")[0].split("{")[0] for v in m.group(1).split(",\n") if v.strip()]
    expect = ["Replicate", "ReplicateBundle", "ClientEvent", "ClientTrigger", "ServerEvent", "ServerTrigger", "IndependentEvent", "IndependentTrigger"]
    if variants != expect:
        print(f"extract_consts: ProtocolPart variants changed: {variants}"); sys.exit(1)
    need("src/shared/protocol.rs", r"fn hash<T>\(&mut self, part: ProtocolPart\) \{\s*part\.hash\(&mut self\.0\);\s*any::type_name::<T>\(\)\.hash\(&mut self\.0\);\s*\}", "ProtocolHasher::hash feeds part then type name")
    consts.append(("protocolKinds", len(variants), "number of ProtocolPart variants (discriminants 0..n-1 in declaration order)"))

    # --- Mutations::send: can_pack and the split condition (shape anchors; the model is Model/Packing.lean)
    need("src/server/replication_messages/mutations.rs",
         r"fn can_pack\(message_size: usize, add: usize, mtu: usize\) -> bool \{\s*let dangling = message_size % mtu;\s*\(dangling > 0\) && \(\(dangling \+ add\) <= mtu\)\s*\}",
         "can_pack body")
    need("src/server/replication_messages/mutations.rs",
         r"if body_size != 0\s*&& !can_pack\(header_size \+ body_size, mutations_size, max_size\)\s*&& !can_pack\(header_size \+ mutations_size, body_size, max_size\)",
         "split condition of Mutations::send")
    need("src/server/replication_messages/mutations.rs",
         r"if !chunks_range\.is_empty\(\) \|\| track_mutate_messages \{", "final push of Mutations::send")
    consts.append(("packingAnchors", 3, "number of source anchors of Mutations::send that matched"))

    out = ["/- GENERATED by tools/extract_consts.py from /repo on every run.  Do not edit. -/",
           "namespace Replicon.Consts", ""]
    for name, value, doc in consts:
        out.append(f"/-- {doc} -/")
        out.append(f"def {name} : Nat := {value}")
        out.append("")
    out.append("end Replicon.Consts")
    text = "\n".join(out) + "\n"
    old = open(TARGET).read() if os.path.exists(TARGET) else None
    if old != text:
        os.makedirs(os.path.dirname(TARGET), exist_ok=True)
        open(TARGET, "w").write(text)
        print("extract_consts: Consts.lean regenerated")
    else:
        print("extract_consts: Consts.lean up to date")


if __name__ == "__main__":
    main()
