import sys
N=int(sys.argv[1]); R=65536//N
L=["case 1015 sys policy=black clients=1 track=0 sync=0 auth=none events=0 dedicated=0","start"]
for e in range(N): L.append(f"spawn {e} m=1 A=1")
L+=["connect 0","flush 3","maxsize 0 1","mut 0 A=2","sframe tick=1 ms=1"]
for r in range(1,R+1):
    for e in range(N): L.append(f"mut {e} A={100+r}")
    L.append("sframe tick=1 ms=1")
    for e in range(N): L.append("drop 0 s2c 1 1")
L+=["deliver 0 s2c 1 0","cframe 0","deliver 0 c2s 0 0","flush 7","end"]
sys.stdout.write("\n".join(L)+"\n")
