//! C15: `serialize_entity` / `deserialize_entity` on generated identifiers and byte strings.

use std::io::Write;
use std::panic::{AssertUnwindSafe, catch_unwind};

use bevy::prelude::*;
use bevy_replicon::bytes::Bytes;
use bevy_replicon::shared::entity_serde::{deserialize_entity, serialize_entity};

use crate::rng::{Rng, hex, unhex};
use crate::{Opts, Out};

fn decode_obs(input: &[u8]) -> String {
    let mut bytes = Bytes::copy_from_slice(input);
    let res = catch_unwind(AssertUnwindSafe(|| {
        let r = deserialize_entity(&mut bytes);
        (r.map_err(|_| ()), bytes.len())
    }));
    match res {
        Ok((Ok(e), remaining)) => format!(
            "ok {} {} {}",
            e.index(),
            e.generation(),
            input.len() - remaining
        ),
        Ok((Err(()), _)) => "err".to_string(),
        Err(_) => "panic".to_string(),
    }
}

pub fn exec(line: &str, out: &mut Out) {
    let t: Vec<&str> = line.split(' ').collect();
    writeln!(out, "{line}").unwrap();
    match t[0] {
        "c15dec" => {
            let input = unhex(t[1]).expect("hex");
            writeln!(out, "= {}", decode_obs(&input)).unwrap();
        }
        "c15rt" => {
            let idx: u32 = t[1].parse().unwrap();
            let generation: u32 = t[2].parse().unwrap();
            let suffix = unhex(t[3]).expect("hex");
            let bits = ((generation as u64) << 32) | idx as u64;
            let res = catch_unwind(|| {
                let e = Entity::try_from_bits(bits).ok()?;
                let mut v = Vec::new();
                serialize_entity(&mut v, e).ok()?;
                Some(v)
            });
            match res {
                Ok(Some(mut v)) => {
                    writeln!(out, "= enc {}", hex(&v)).unwrap();
                    v.extend_from_slice(&suffix);
                    writeln!(out, "= {}", decode_obs(&v)).unwrap();
                }
                _ => {
                    writeln!(out, "= enc -").unwrap();
                    writeln!(out, "= panic").unwrap();
                }
            }
        }
        _ => unreachable!(),
    }
}

const IDX_CLASSES: &[u32] = &[
    0, 1, 2, 63, 64, 65, 127, 128, 129, 16383, 16384, 16385, 2097151, 2097152, 0x0fff_ffff,
    0x1000_0000, 0x3fff_ffff, 0x4000_0000, 0x7fff_ffff, 0x8000_0000, 0x8000_0001, 0xffff_fffe,
    0xffff_ffff,
];
const GEN_CLASSES: &[u32] = &[
    1, 2, 3, 127, 128, 129, 130, 16384, 16385, 2097152, 2097153, 0x1000_0000, 0x1000_0001,
    0x3fff_ffff, 0x7fff_fffe, 0x7fff_ffff,
];
/// Boundary alphabet for structured byte strings.
const ALPHA: &[u8] = &[0x00, 0x01, 0x02, 0x03, 0x07, 0x0f, 0x10, 0x7f, 0x80, 0x81, 0x8f, 0xfe, 0xff];

fn rand_bytes(rng: &mut Rng, n: usize) -> Vec<u8> {
    (0..n).map(|_| rng.next() as u8).collect()
}

pub fn generate(opts: &Opts, out: &mut Out) {
    let mut rng = Rng::new(opts.seed ^ 0xC15);
    // 1. identifiers: all boundary-class pairs, with and without a suffix
    for &i in IDX_CLASSES {
        for &g in GEN_CLASSES {
            exec(&format!("c15rt {i} {g} -"), out);
            let n = rng.range(1, 6) as usize;
            let suf = rand_bytes(&mut rng, n);
            exec(&format!("c15rt {i} {g} {}", hex(&suf)), out);
        }
    }
    // 2. random identifiers
    let n_rand = if opts.thorough { 400_000 } else { 20_000 };
    for _ in 0..n_rand {
        let i = match rng.below(4) {
            0 => rng.below(300) as u32,
            1 => *rng.pick(IDX_CLASSES),
            _ => rng.next() as u32,
        };
        let g = match rng.below(4) {
            0 => 1 + rng.below(300) as u32,
            1 => *rng.pick(GEN_CLASSES),
            _ => 1 + (rng.next() as u32) % 0x7fff_ffff,
        };
        let suf = if rng.chance(1, 2) { vec![] } else { let n = rng.range(1, 8) as usize; rand_bytes(&mut rng, n) };
        exec(&format!("c15rt {i} {g} {}", hex(&suf)), out);
    }
    // 3. all byte strings up to length 2 (quick) / 3 (thorough)
    exec("c15dec -", out);
    for a in 0..=255u8 {
        exec(&format!("c15dec {}", hex(&[a])), out);
    }
    for a in 0..=255u8 {
        for b in 0..=255u8 {
            exec(&format!("c15dec {}", hex(&[a, b])), out);
        }
    }
    if opts.thorough {
        for a in 0..=255u8 {
            for b in 0..=255u8 {
                for c in 0..=255u8 {
                    exec(&format!("c15dec {}", hex(&[a, b, c])), out);
                }
            }
        }
    }
    // 4. boundary-alphabet strings up to length 4 (quick) / 6 (thorough, sampled beyond 5)
    let max_len = if opts.thorough { 5 } else { 4 };
    for len in 3..=max_len {
        let total = (ALPHA.len() as u64).pow(len as u32);
        for mut code in 0..total {
            let mut v = Vec::with_capacity(len);
            for _ in 0..len {
                v.push(ALPHA[(code % ALPHA.len() as u64) as usize]);
                code /= ALPHA.len() as u64;
            }
            exec(&format!("c15dec {}", hex(&v)), out);
        }
    }
    // 5. structured: continuation runs followed by boundary last bytes (exercise both varints' limits)
    for n1 in 0..=11usize {
        for &last1 in &[0x00u8, 0x01, 0x02, 0x03, 0x7f, 0x80] {
            for n2 in 0..=6usize {
                for &last2 in &[0x00u8, 0x01, 0x07, 0x08, 0x0e, 0x0f, 0x10, 0x7f, 0x80] {
                    for &fill in &[0x80u8, 0x81, 0xff] {
                        let mut v = vec![fill; n1];
                        v.push(last1);
                        v.extend(std::iter::repeat(fill).take(n2));
                        v.push(last2);
                        exec(&format!("c15dec {}", hex(&v)), out);
                        if n1 > 0 {
                            v[0] |= 1;
                            exec(&format!("c15dec {}", hex(&v)), out);
                        }
                    }
                }
            }
        }
    }
    // 6. random and mutated valid encodings up to 24 bytes
    let n_mut = if opts.thorough { 400_000 } else { 20_000 };
    for _ in 0..n_mut {
        let mut v = Vec::new();
        if rng.chance(2, 3) {
            let i = if rng.chance(1, 2) { *rng.pick(IDX_CLASSES) } else { rng.next() as u32 };
            let g = if rng.chance(1, 2) { *rng.pick(GEN_CLASSES) } else { 1 + (rng.next() as u32) % 0x7fff_ffff };
            let e = Entity::try_from_bits(((g as u64) << 32) | i as u64).unwrap();
            serialize_entity(&mut v, e).unwrap();
            match rng.below(5) {
                0 => { let k = rng.below(v.len() as u64) as usize; v.truncate(k); }
                1 => { let k = rng.below(v.len() as u64) as usize; v[k] ^= 1 << rng.below(8); }
                2 => { let k = rng.below(v.len() as u64) as usize; v[k] = *rng.pick(ALPHA); }
                3 => { let k = rng.below(v.len() as u64 + 1) as usize; v.insert(k, *rng.pick(ALPHA)); }
                _ => { let n = rng.range(0, 10) as usize; let r = rand_bytes(&mut rng, n); v.extend(r); }
            }
        } else {
            let n = rng.range(0, 24) as usize;
            v = rand_bytes(&mut rng, n);
        }
        exec(&format!("c15dec {}", hex(&v)), out);
    }
}
