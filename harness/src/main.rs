//! Verification harness: runs the real bevy_replicon code on generated or replayed inputs and
//! prints the line protocol consumed by the Lean driver (`/verif/lean/Driver`).
//!
//! usage: harness gen <profile> [--seed N] [--tier quick|thorough] [--shard i/n]
//!        harness exec            (reads input lines on stdin, re-executes them)

mod c12;
mod c14;
mod c15;
mod c17;
mod c18;
mod rng;
mod sys;

use std::alloc::{GlobalAlloc, Layout, System};
use std::io::{BufRead, BufWriter, Write};
use std::sync::atomic::{AtomicBool, AtomicUsize, Ordering};

/// Records the largest single allocation request while `ALLOC_TRACK` is on (C06: a server frame
/// that processes injected bytes must not ask for memory out of proportion to them).
pub struct SizeRecorder;
pub static ALLOC_TRACK: AtomicBool = AtomicBool::new(false);
pub static ALLOC_MAX: AtomicUsize = AtomicUsize::new(0);

unsafe impl GlobalAlloc for SizeRecorder {
    unsafe fn alloc(&self, layout: Layout) -> *mut u8 {
        if ALLOC_TRACK.load(Ordering::Relaxed) {
            ALLOC_MAX.fetch_max(layout.size(), Ordering::Relaxed);
        }
        unsafe { System.alloc(layout) }
    }
    unsafe fn dealloc(&self, ptr: *mut u8, layout: Layout) {
        unsafe { System.dealloc(ptr, layout) }
    }
    unsafe fn realloc(&self, ptr: *mut u8, layout: Layout, new_size: usize) -> *mut u8 {
        if ALLOC_TRACK.load(Ordering::Relaxed) {
            ALLOC_MAX.fetch_max(new_size, Ordering::Relaxed);
        }
        unsafe { System.realloc(ptr, layout, new_size) }
    }
}

#[global_allocator]
static GLOBAL: SizeRecorder = SizeRecorder;

pub struct Opts {
    pub seed: u64,
    pub thorough: bool,
    pub shard: (u64, u64),
    pub budget: Option<u64>,
}

pub type Out<'a> = BufWriter<std::io::StdoutLock<'a>>;

/// Executes one record (an input line) and prints the input line followed by `= …` lines.
pub fn exec_line(line: &str, out: &mut Out) {
    let head = line.split(' ').next().unwrap_or("");
    match head {
        "c15dec" | "c15rt" => c15::exec(line, out),
        "c12cmp" | "c12ch" | "c12smt" => c12::exec(line, out),
        "c17" => c17::exec(line, out),
        "c14pair" | "c14hs" => c14::exec(line, out),
        "c18" => c18::exec(line, out),
        _ => {
            writeln!(out, "# unknown input line: {line}").unwrap();
        }
    }
}

fn main() {
    // Panics are caught per case and reported as observations; keep stderr quiet.
    if std::env::var_os("HARNESS_PANIC_VERBOSE").is_none() {
        std::panic::set_hook(Box::new(|_| {}));
    }
    let args: Vec<String> = std::env::args().collect();
    let stdout = std::io::stdout();
    let mut out = BufWriter::with_capacity(1 << 20, stdout.lock());
    match args.get(1).map(|s| s.as_str()) {
        Some("gen") => {
            let profile = args.get(2).expect("profile").clone();
            let mut opts = Opts { seed: 0, thorough: false, shard: (0, 1), budget: None };
            let mut i = 3;
            while i < args.len() {
                match args[i].as_str() {
                    "--seed" => {
                        opts.seed = args[i + 1].parse().expect("seed");
                        i += 1;
                    }
                    "--tier" => {
                        opts.thorough = args[i + 1] == "thorough";
                        i += 1;
                    }
                    "--shard" => {
                        let (a, b) = args[i + 1].split_once('/').expect("i/n");
                        opts.shard = (a.parse().unwrap(), b.parse().unwrap());
                        i += 1;
                    }
                    "--budget" => {
                        opts.budget = Some(args[i + 1].parse().expect("budget"));
                        i += 1;
                    }
                    other => panic!("unknown option {other}"),
                }
                i += 1;
            }
            match profile.as_str() {
                "c15" => c15::generate(&opts, &mut out),
                "c12" => c12::generate(&opts, &mut out),
                "c17" => c17::generate(&opts, &mut out),
                "c14" => c14::generate(&opts, &mut out),
                p if p.starts_with("sys") => sys::generate(&opts, p, &mut out),
                "c18" => c18::generate(&opts, &mut out),
                other => {
                    eprintln!("unknown profile {other}");
                    std::process::exit(2);
                }
            }
        }
        Some("exec") => {
            let stdin = std::io::stdin();
            let mut block: Option<Vec<String>> = None;
            for line in stdin.lock().lines() {
                let line = line.unwrap();
                let line = line.trim_end().to_string();
                if line.is_empty() || line.starts_with('=') || line.starts_with('#') {
                    continue;
                }
                if line.starts_with("case ") {
                    block = Some(vec![line]);
                } else if line == "end" {
                    if let Some(b) = block.take() {
                        exec_case(&b, &mut out);
                    }
                } else if let Some(b) = block.as_mut() {
                    b.push(line);
                } else {
                    exec_line(&line, &mut out);
                }
            }
        }
        _ => {
            eprintln!("usage: harness gen <profile> [--seed N] [--tier quick|thorough] | harness exec");
            std::process::exit(2);
        }
    }
    out.flush().unwrap();
}

/// Executes a multi-line case (`case …` header followed by input lines).
pub fn exec_case(lines: &[String], out: &mut Out) {
    let hdr = &lines[0];
    if hdr.split(' ').nth(2) == Some("sys") {
        sys::exec_case(lines, out);
    } else {
        writeln!(out, "# no executor for {hdr}").unwrap();
    }
}
