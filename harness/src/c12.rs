//! C12 (leaf part): `RepliconTick::cmp`, `ConfirmHistory`, `ServerMutateTicks` through their public
//! methods, on generated confirmation/query sequences over *absolute* (unwrapped) ticks.

use std::io::Write;
use std::panic::{AssertUnwindSafe, catch_unwind};

use bevy_replicon::client::confirm_history::ConfirmHistory;
use bevy_replicon::client::server_mutate_ticks::ServerMutateTicks;
use bevy_replicon::shared::replicon_tick::RepliconTick;

use crate::rng::Rng;
use crate::{Opts, Out};

fn tick(abs: u64) -> RepliconTick {
    RepliconTick::new(abs as u32)
}

enum Op {
    Confirm(u64, usize),
    Query(u64),
    Any(u64, u64),
}

fn parse_op(s: &str) -> Op {
    let (k, rest) = s.split_at(1);
    match k {
        "c" => match rest.split_once(':') {
            Some((t, n)) => Op::Confirm(t.parse().unwrap(), n.parse().unwrap()),
            None => Op::Confirm(rest.parse().unwrap(), 1),
        },
        "q" => Op::Query(rest.parse().unwrap()),
        "a" => {
            let (a, b) = rest.split_once(':').unwrap();
            Op::Any(a.parse().unwrap(), b.parse().unwrap())
        }
        _ => panic!("bad op {s}"),
    }
}

pub fn exec(line: &str, out: &mut Out) {
    let t: Vec<&str> = line.split(' ').collect();
    writeln!(out, "{line}").unwrap();
    match t[0] {
        "c12cmp" => {
            let a: u64 = t[1].parse().unwrap();
            let b: u64 = t[2].parse().unwrap();
            let r = match tick(a).cmp(&tick(b)) {
                std::cmp::Ordering::Less => "lt",
                std::cmp::Ordering::Equal => "eq",
                std::cmp::Ordering::Greater => "gt",
            };
            writeln!(out, "= {r}").unwrap();
        }
        "c12ch" => {
            let t0: u64 = t[2].parse().unwrap();
            let mut h = ConfirmHistory::new(tick(t0));
            let mut res = Vec::new();
            for s in &t[3..] {
                let r = catch_unwind(AssertUnwindSafe(|| match parse_op(s) {
                    Op::Confirm(x, _) => {
                        h.confirm(tick(x));
                        format!("{}:{}", h.mask(), h.last_tick().get())
                    }
                    Op::Query(x) => (h.contains(tick(x)) as u8).to_string(),
                    Op::Any(a, b) => (h.contains_any(tick(a), tick(b)) as u8).to_string(),
                }));
                match r {
                    Ok(s) => res.push(s),
                    Err(_) => {
                        res.push("panic".to_string());
                        break;
                    }
                }
            }
            writeln!(out, "= {}", res.join(" ")).unwrap();
        }
        "c12smt" => {
            let mut h = ServerMutateTicks::default();
            let mut res = Vec::new();
            for s in &t[2..] {
                let r = catch_unwind(AssertUnwindSafe(|| match parse_op(s) {
                    Op::Confirm(x, n) => {
                        let ret = h.confirm(tick(x), n);
                        format!("{}:{}:{}", ret as u8, h.mask(), h.last_tick().get())
                    }
                    Op::Query(x) => (h.contains(tick(x)) as u8).to_string(),
                    Op::Any(a, b) => (h.contains_any(tick(a), tick(b)) as u8).to_string(),
                }));
                match r {
                    Ok(s) => res.push(s),
                    Err(_) => {
                        res.push("panic".to_string());
                        break;
                    }
                }
            }
            writeln!(out, "= {}", res.join(" ")).unwrap();
        }
        _ => unreachable!(),
    }
}

const DIST: &[u64] = &[0, 1, 2, 3, 31, 32, 33, 62, 63, 64, 65, 66, 127, 128, 129, 191, 192, 1000, 65535, 65536];
const HALF: u64 = 1 << 31;
const M: u64 = 1 << 32;

/// A distance for advancing / looking back, biased to window boundaries.
fn dist(rng: &mut Rng) -> u64 {
    match rng.below(10) {
        0..=4 => rng.below(8),
        5..=7 => *rng.pick(DIST),
        8 => rng.below(200),
        _ => *rng.pick(&[HALF - 1, HALF - 2, HALF - 64, HALF - 65, 1 << 30, (1 << 30) + 63]),
    }
}

/// A base tick: around 0 (only when `allow_zero`), around the 32-bit wrap point, random.
fn base(rng: &mut Rng) -> u64 {
    match rng.below(6) {
        0 => M - 1 - rng.below(70),
        1 => M + rng.below(70),
        2 => 3 * M - rng.below(130),
        3 => HALF + rng.below(100),
        4 => 2 * M + HALF - rng.below(100),
        _ => M + rng.next() % (4 * M),
    }
}

fn query_ops(rng: &mut Rng, last: u64, ops: &mut Vec<String>, wf: bool) {
    let n = rng.below(4);
    for _ in 0..n {
        // keep queries within half range of `last` for well-formed sequences
        let lim = if wf { HALF - 1 } else { M };
        let q = if rng.chance(3, 4) {
            let d = dist(rng).min(lim);
            if rng.chance(4, 5) { last.saturating_sub(d) } else { last + d.min(lim) }
        } else {
            last.saturating_sub(rng.below(70))
        };
        if rng.chance(1, 2) {
            ops.push(format!("q{q}"));
        } else {
            // range [a, b] with a <= b, both near `last`
            let a = q;
            let len = match rng.below(4) {
                0 => 0,
                1 => rng.below(5),
                2 => *rng.pick(&[62u64, 63, 64, 65, 127, 128]),
                _ => rng.below(140),
            };
            let mut b = a + len;
            if wf && b >= last + HALF {
                b = last + HALF - 1;
            }
            if wf && a + HALF <= last {
                continue;
            }
            ops.push(format!("a{a}:{b}"));
        }
    }
}

pub fn generate(opts: &Opts, out: &mut Out) {
    let mut rng = Rng::new(opts.seed ^ 0xC12);
    // 1. tick comparison: boundary distances around every base, plus random pairs
    for _ in 0..(if opts.thorough { 200_000 } else { 10_000 }) {
        let a = base(&mut rng);
        let d = match rng.below(4) {
            0 => rng.below(4),
            1 => *rng.pick(&[HALF - 2, HALF - 1, HALF, HALF + 1, M - 1, M, M + 1]),
            2 => dist(&mut rng),
            _ => rng.next() % M,
        };
        let b = if rng.chance(1, 2) { a + d } else { a.saturating_sub(d) };
        exec(&format!("c12cmp {a} {b}"), out);
    }
    // 2. ConfirmHistory sequences
    let n_seq = if opts.thorough { 300_000 } else { 12_000 };
    for k in 0..n_seq {
        let wf = k % 8 != 7;
        let t0 = base(&mut rng);
        let mut last = t0;
        let mut ops = Vec::new();
        let n_ops = rng.range(1, 14);
        for _ in 0..n_ops {
            let d = dist(&mut rng);
            let t = if rng.chance(3, 5) {
                last + if wf { d.min(HALF - 1) } else { d }
            } else {
                last.saturating_sub(if wf { d.min(HALF - 1) } else { d })
            };
            ops.push(format!("c{t}"));
            if !wf && rng.chance(1, 6) {
                // hypothesis-violating: jump beyond half range (only model-vs-implementation is compared)
                let far = last + HALF + rng.below(100);
                ops.push(format!("c{far}"));
            }
            last = last.max(t);
            query_ops(&mut rng, last, &mut ops, wf);
        }
        // always finish with the whole-window range queries around the last tick
        if last >= 64 {
            ops.push(format!("a{}:{}", last - 63, last));
            ops.push(format!("a{}:{}", last - 64, last));
            ops.push(format!("a{}:{}", last - 63, last + 5));
            ops.push(format!("q{}", last - 63));
            ops.push(format!("q{}", last - 64));
        }
        exec(&format!("c12ch wf={} {t0} {}", wf as u8, ops.join(" ")), out);
    }
    // 3. ServerMutateTicks sequences (start at tick 0: `Default`)
    let n_smt = if opts.thorough { 300_000 } else { 12_000 };
    for k in 0..n_smt {
        let wf = k % 8 != 7;
        let mut last: u64 = 0;
        let mut ops = Vec::new();
        // per absolute tick: (count, received)
        let mut log: std::collections::HashMap<u64, (usize, usize)> = Default::default();
        // optionally walk up to the wrap point in legal (< 2^31) steps first
        if rng.chance(1, 3) {
            for step in [HALF - 1, HALF - 1, rng.below(200)] {
                last += step;
                let n = rng.range(1, 3) as usize;
                ops.push(format!("c{last}:{n}"));
                log.insert(last, (n, 1));
            }
        }
        let n_ops = rng.range(1, 16);
        for _ in 0..n_ops {
            let d = dist(&mut rng);
            let t = if rng.chance(1, 2) { last + d.min(HALF - 1) } else { last.saturating_sub(d.min(HALF - 1)) };
            let in_window = t + 64 > last;
            let entry = log.get(&t).copied();
            let n = match entry {
                Some((c, _)) if wf || rng.chance(3, 4) => c,
                _ => rng.range(1, 4) as usize,
            };
            if wf && in_window {
                if let Some((c, r)) = entry {
                    if r >= c {
                        continue; // would exceed the announced count
                    }
                }
            }
            ops.push(format!("c{t}:{n}"));
            if in_window {
                let e = log.entry(t).or_insert((n, 0));
                e.0 = n;
                e.1 += 1;
            }
            last = last.max(t);
            query_ops(&mut rng, last, &mut ops, wf);
        }
        if last >= 64 {
            ops.push(format!("a{}:{}", last - 63, last));
            ops.push(format!("a{}:{}", last - 64, last));
            ops.push(format!("q{}", last - 63));
            ops.push(format!("q{}", last - 64));
        }
        exec(&format!("c12smt wf={} {}", wf as u8, ops.join(" ")), out);
    }
}
