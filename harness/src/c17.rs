//! C17: the example backend over real loopback TCP sockets.  Sequence-numbered independent events
//! of three types (= three ordered channels) per direction pile up over several sender frames
//! before the receiver runs a frame; the receive order per channel is observed.

use std::cell::RefCell;
use std::io::Write;

use bevy::prelude::*;
use bevy_replicon::prelude::*;
use bevy_replicon_example_backend::{ExampleClient, ExampleServer, RepliconExampleBackendPlugins};
use serde::{Deserialize, Serialize};

use crate::rng::Rng;
use crate::{Opts, Out};

macro_rules! ev {
    ($name:ident) => {
        #[derive(Event, Serialize, Deserialize, Clone)]
        struct $name {
            seq: u32,
            blob: Vec<u8>,
        }
    };
}
ev!(S0);
ev!(S1);
ev!(S2);
ev!(C0);
ev!(C1);
ev!(C2);

/// (channel, seq, size, payload intact)
#[derive(Resource, Default)]
struct Log(Vec<(u8, u32, usize, bool)>);

fn blob(seq: u32, size: usize) -> Vec<u8> {
    (0..size).map(|i| (seq as usize * 31 + i * 7) as u8).collect()
}

fn rd_s<E: Event + Clone>(ch: u8, get: fn(&E) -> (u32, &Vec<u8>)) -> impl FnMut(EventReader<E>, ResMut<Log>) {
    move |mut r: EventReader<E>, mut log: ResMut<Log>| {
        for e in r.read() {
            let (seq, b) = get(e);
            log.0.push((ch, seq, b.len(), *b == blob(seq, b.len())));
        }
    }
}

fn rd_c<E: Event + Clone>(
    ch: u8,
    get: fn(&E) -> (u32, &Vec<u8>),
) -> impl FnMut(EventReader<FromClient<E>>, ResMut<Log>) {
    move |mut r: EventReader<FromClient<E>>, mut log: ResMut<Log>| {
        for e in r.read() {
            let (seq, b) = get(&e.event);
            log.0.push((ch, seq, b.len(), *b == blob(seq, b.len())));
        }
    }
}

struct Link {
    server: App,
    client: App,
    /// two more connected clients: broadcasts go to all three, so that the server's send loop
    /// works on several connections at once
    peers: Vec<App>,
    port: u16,
}

fn make_app(is_client: bool) -> App {
    let mut app = App::new();
    app.add_plugins((
        MinimalPlugins,
        RepliconPlugins
            .set(ServerPlugin { tick_policy: TickPolicy::Manual, ..Default::default() })
            .set(RepliconSharedPlugin { auth_method: AuthMethod::None }),
        RepliconExampleBackendPlugins,
    ))
    .init_resource::<Log>()
    .add_server_event::<S0>(Channel::Ordered)
    .add_server_event::<S1>(Channel::Ordered)
    .add_server_event::<S2>(Channel::Ordered)
    .make_event_independent::<S0>()
    .make_event_independent::<S1>()
    .make_event_independent::<S2>()
    .add_client_event::<C0>(Channel::Ordered)
    .add_client_event::<C1>(Channel::Ordered)
    .add_client_event::<C2>(Channel::Ordered);
    if is_client {
        app.add_systems(
            Update,
            (
                rd_s::<S0>(0, |e| (e.seq, &e.blob)),
                rd_s::<S1>(1, |e| (e.seq, &e.blob)),
                rd_s::<S2>(2, |e| (e.seq, &e.blob)),
            ),
        );
    } else {
        app.add_systems(
            Update,
            (
                rd_c::<C0>(0, |e| (e.seq, &e.blob)),
                rd_c::<C1>(1, |e| (e.seq, &e.blob)),
                rd_c::<C2>(2, |e| (e.seq, &e.blob)),
            ),
        );
    }
    app.finish();
    app
}

fn build() -> Link {
    let mut server = make_app(false);
    let mut client = make_app(true);
    let mut peers = vec![make_app(true), make_app(true)];
    let sock = ExampleServer::new(0).expect("bind");
    let port = sock.local_addr().unwrap().port();
    server.insert_resource(sock);
    client.insert_resource(ExampleClient::new(port).expect("connect"));
    for p in peers.iter_mut() {
        p.insert_resource(ExampleClient::new(port).expect("connect"));
    }
    for _ in 0..6 {
        server.update();
        client.update();
        for p in peers.iter_mut() { p.update(); }
        std::thread::sleep(std::time::Duration::from_millis(2));
    }
    assert!(client.world().resource::<RepliconClient>().is_connected());
    for p in peers.iter() { assert!(p.world().resource::<RepliconClient>().is_connected()); }
    Link { server, client, peers, port }
}

thread_local! {
    static LINK: RefCell<Option<Link>> = const { RefCell::new(None) };
}

fn send(app: &mut App, s2c: bool, ch: u8, seq: u32, size: usize) {
    let b = blob(seq, size);
    let w = app.world_mut();
    match (s2c, ch) {
        (true, 0) => { w.send_event(ToClients { mode: SendMode::Broadcast, event: S0 { seq, blob: b } }); }
        (true, 1) => { w.send_event(ToClients { mode: SendMode::Broadcast, event: S1 { seq, blob: b } }); }
        (true, _) => { w.send_event(ToClients { mode: SendMode::Broadcast, event: S2 { seq, blob: b } }); }
        (false, 0) => { w.send_event(C0 { seq, blob: b }); }
        (false, 1) => { w.send_event(C1 { seq, blob: b }); }
        (false, _) => { w.send_event(C2 { seq, blob: b }); }
    }
}

/// `c17 dir=<s2c|c2s> b=<batch>;<batch>;…` with batch = `ch:seq:size,…` (one sender frame each;
/// `-` = empty frame).  All batches are sent before the receiver runs.
pub fn exec(line: &str, out: &mut Out) {
    writeln!(out, "{line}").unwrap();
    let t: Vec<&str> = line.split(' ').collect();
    let s2c = t[1] == "dir=s2c";
    let batches: Vec<Vec<(u8, u32, usize)>> = t[2][2..]
        .split(';')
        .map(|b| {
            if b == "-" {
                vec![]
            } else {
                b.split(',')
                    .map(|m| {
                        let p: Vec<&str> = m.split(':').collect();
                        (p[0].parse().unwrap(), p[1].parse().unwrap(), p[2].parse().unwrap())
                    })
                    .collect()
            }
        })
        .collect();
    let total: usize = batches.iter().map(|b| b.len()).sum();
    LINK.with(|l| {
        let mut l = l.borrow_mut();
        if l.is_none() {
            *l = Some(build());
        }
        let link = l.as_mut().unwrap();
        if t[1] == "dir=join" {
            // a client that connects now: the server accepts it and sends before the newcomer's first frame
            let port = link.port;
            let mut joiner = make_app(true);
            joiner.insert_resource(ExampleClient::new(port).expect("connect"));
            for _ in 0..3 {
                link.server.update();
                std::thread::sleep(std::time::Duration::from_millis(2));
            }
            for b in &batches {
                for &(ch, seq, size) in b { send(&mut link.server, true, ch, seq, size); }
                link.server.update();
            }
            std::thread::sleep(std::time::Duration::from_millis(5));
            let mut frames = 0;
            let mut first_pass = 0;
            while frames < 400 {
                joiner.update();
                frames += 1;
                let n = joiner.world().resource::<Log>().0.len();
                if frames == 1 { first_pass = n; }
                if n >= total { break; }
                std::thread::sleep(std::time::Duration::from_micros(200));
            }
            for _ in 0..2 { joiner.update(); }
            let log = &joiner.world().resource::<Log>().0;
            let mut parts = Vec::new();
            for ch in 0..3u8 {
                let seqs: Vec<String> = log.iter().filter(|e| e.0 == ch).map(|e| e.1.to_string()).collect();
                parts.push(format!("ch{ch}={}", if seqs.is_empty() { "-".to_string() } else { seqs.join(",") }));
            }
            let intact = log.iter().all(|e| e.3);
            writeln!(out, "= {} intact={} first_pass={} frames={}", parts.join(" "), intact as u8, first_pass, frames).unwrap();
            // the newcomer leaves again; the link's own clients drain what they were sent
            drop(joiner);
            for _ in 0..4 {
                link.server.update();
                link.client.update();
                for p in link.peers.iter_mut() { p.update(); }
                std::thread::sleep(std::time::Duration::from_millis(1));
            }
            return;
        }
        let Link { server, client, peers, .. } = link;
        let (tx, rx) = if s2c { (server, client) } else { (client, server) };
        rx.world_mut().resource_mut::<Log>().0.clear();
        for p in peers.iter_mut() { p.world_mut().resource_mut::<Log>().0.clear(); }
        for b in &batches {
            for &(ch, seq, size) in b {
                send(tx, s2c, ch, seq, size);
            }
            tx.update();
        }
        let mut frames = 0;
        let mut first_pass = 0;
        while frames < 400 {
            rx.update();
            for p in peers.iter_mut() { p.update(); }
            frames += 1;
            let n = rx.world().resource::<Log>().0.len();
            if frames == 1 {
                first_pass = n;
            }
            let peers_done = !s2c || peers.iter().all(|p| p.world().resource::<Log>().0.len() >= total);
            if n >= total && peers_done {
                break;
            }
            std::thread::sleep(std::time::Duration::from_micros(200));
        }
        for _ in 0..2 {
            rx.update();
            for p in peers.iter_mut() { p.update(); }
        }
        let log = &rx.world().resource::<Log>().0;
        let mut parts = Vec::new();
        for ch in 0..3u8 {
            let seqs: Vec<String> = log.iter().filter(|e| e.0 == ch).map(|e| e.1.to_string()).collect();
            parts.push(format!("ch{ch}={}", if seqs.is_empty() { "-".to_string() } else { seqs.join(",") }));
        }
        let mut intact = log.iter().all(|e| e.3);
        // the other clients of a broadcast: the same sequences, in order
        if s2c {
            for (i, p) in peers.iter().enumerate() {
                let plog = &p.world().resource::<Log>().0;
                intact &= plog.iter().all(|e| e.3);
                for ch in 0..3u8 {
                    let seqs: Vec<String> = plog.iter().filter(|e| e.0 == ch).map(|e| e.1.to_string()).collect();
                    parts.push(format!("p{}ch{ch}={}", i + 1, if seqs.is_empty() { "-".to_string() } else { seqs.join(",") }));
                }
            }
        }
        writeln!(out, "= {} intact={} first_pass={} frames={}", parts.join(" "), intact as u8, first_pass, frames).unwrap();
    });
}

pub fn generate(opts: &Opts, out: &mut Out) {
    let mut rng = Rng::new(opts.seed ^ 0xC17);
    let cases = if opts.thorough { 6000 } else { 400 };
    let mut seq = 0u32;
    for k in 0..cases {
        let s2c = k % 2 == 0;
        let nb = rng.range(1, 4);
        let mut bs = Vec::new();
        for _ in 0..nb {
            let n = match rng.below(6) {
                0 => 0,
                1 => 1,
                2 => rng.range(2, 5),
                3 => rng.range(6, 16),
                _ => rng.range(12, 48),
            };
            let nch = rng.range(1, 3);
            let ms: Vec<String> = (0..n)
                .map(|_| {
                    seq += 1;
                    let size = match rng.below(6) {
                        0 => 0,
                        1 => rng.below(8),
                        2 => rng.below(200),
                        3 => *rng.pick(&[1100u64, 1150, 1180]),
                        // around the replication message limit, and well beyond it (events have no limit)
                        4 => *rng.pick(&[1190u64, 1194, 1195, 1196, 1197, 1198, 1199, 1200, 1201, 1202, 1203, 1204, 1210, 2000, 8000]),
                        _ => rng.below(1180),
                    };
                    format!("{}:{}:{}", rng.below(nch), seq, size)
                })
                .collect();
            bs.push(if ms.is_empty() { "-".to_string() } else { ms.join(",") });
        }
        // one case in eight: a client that has just connected, before its first frame
        let dir = if k % 8 == 7 { "join" } else if s2c { "s2c" } else { "c2s" };
        exec(&format!("c17 dir={dir} b={}", bs.join(";")), out);
    }
}
