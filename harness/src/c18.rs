//! C18: `scene::replicate_into` on generated worlds and rule sets (overlapping single / bundle
//! rules, priorities, reflected / unreflected / unregistered component types).

use std::io::Write;
use std::panic::{AssertUnwindSafe, catch_unwind};

use bevy::asset::ron;
use bevy::prelude::*;
use bevy::scene::{DynamicEntity, serde::SceneDeserializer};
use bevy_replicon::prelude::*;
use bevy_replicon::scene;
use serde::de::DeserializeSeed;
use serde::{Deserialize, Serialize};

use crate::rng::Rng;
use crate::{Opts, Out};

macro_rules! comp {
    ($name:ident, reflect_component) => {
        #[derive(Component, Reflect, Serialize, Deserialize, Clone, Default)]
        #[reflect(Component)]
        struct $name(u32);
    };
    ($name:ident, reflect_only) => {
        #[derive(Component, Reflect, Serialize, Deserialize, Clone, Default)]
        struct $name(u32);
    };
}
comp!(A, reflect_component);
comp!(B, reflect_component);
comp!(C, reflect_component);
comp!(D, reflect_component);
comp!(E, reflect_only); // registered, but without #[reflect(Component)]
comp!(F, reflect_only); // never registered
comp!(X, reflect_component); // reflected, never part of a rule

/// The rule menu; the index is what the trace refers to.  Component letters are what the
/// Lean side sees: A=0 … F=5.
pub const MENU: &[&str] = &[
    "1:A", "1:B", "1:C", "1:D", "1:E", "1:F", "2:AB", "2:BC", "2:AC", "3:ABC", "2:AE", "2:DF",
    "5:A", "0:BC", "2:CD", "4:ABCD", "1:BA", "2:FD", "3:FAB", "2:EC", "3:AFC",
];

fn add_rule(app: &mut App, idx: usize) {
    match idx {
        0 => app.replicate::<A>(),
        1 => app.replicate::<B>(),
        2 => app.replicate::<C>(),
        3 => app.replicate::<D>(),
        4 => app.replicate::<E>(),
        5 => app.replicate::<F>(),
        6 => app.replicate_bundle::<(A, B)>(),
        7 => app.replicate_bundle::<(B, C)>(),
        8 => app.replicate_bundle::<(A, C)>(),
        9 => app.replicate_bundle::<(A, B, C)>(),
        10 => app.replicate_bundle::<(A, E)>(),
        11 => app.replicate_bundle::<(D, F)>(),
        12 => app.replicate_with_priority(5, RuleFns::<A>::default()),
        13 => app.replicate_with_priority(0, (RuleFns::<B>::default(), RuleFns::<C>::default())),
        14 => app.replicate_bundle::<(C, D)>(),
        15 => app.replicate_bundle::<(A, B, C, D)>(),
        16 => app.replicate_with_priority(1, (RuleFns::<B>::default(), RuleFns::<A>::default())),
        // an unregistered / unreflected component in front of reflected ones
        17 => app.replicate_bundle::<(F, D)>(),
        18 => app.replicate_bundle::<(F, A, B)>(),
        19 => app.replicate_bundle::<(E, C)>(),
        20 => app.replicate_bundle::<(A, F, C)>(),
        _ => panic!("rule index"),
    };
}

fn insert_comp(e: &mut EntityWorldMut, letter: char, v: u32) {
    match letter {
        'A' => e.insert(A(v)),
        'B' => e.insert(B(v)),
        'C' => e.insert(C(v)),
        'D' => e.insert(D(v)),
        'E' => e.insert(E(v)),
        'F' => e.insert(F(v)),
        'X' => e.insert(X(v)),
        _ => panic!("component letter"),
    };
}

fn comp_str(c: &dyn PartialReflect) -> String {
    let path = c.get_represented_type_info().map(|t| t.type_path()).unwrap_or("?");
    let name = path.rsplit("::").next().unwrap_or("?");
    let v = match c.reflect_ref() {
        bevy::reflect::ReflectRef::TupleStruct(ts) => ts
            .field(0)
            .and_then(|f| f.try_downcast_ref::<u32>().copied())
            .map(|v| v.to_string())
            .unwrap_or("?".into()),
        _ => "".into(),
    };
    format!("{name}{v}")
}

/// `c18 rules=<i/prio:letters,…|-> world=<spec;spec;…> pre=<0|1>`; entity spec = `m<0|1>:A5.B7` (`-` = no
/// components).  `pre=1`: the scene already contains every second entity with component X.
pub fn exec(line: &str, out: &mut Out) {
    writeln!(out, "{line}").unwrap();
    let t: Vec<&str> = line.split(' ').collect();
    let rules: Vec<usize> = if &t[1][6..] == "-" { vec![] } else { t[1][6..].split(',').map(|x| x.split('/').next().unwrap().parse().unwrap()).collect() };
    let specs: Vec<&str> = if &t[2][6..] == "-" { vec![] } else { t[2][6..].split(';').collect() };
    let pre = t[3] == "pre=1";
    let res = catch_unwind(AssertUnwindSafe(|| {
        let mut app = App::new();
        app.add_plugins(RepliconPlugins);
        app.register_type::<A>().register_type::<B>().register_type::<C>().register_type::<D>().register_type::<E>().register_type::<X>();
        for &r in &rules {
            add_rule(&mut app, r);
        }
        let mut ids = Vec::new();
        for s in &specs {
            let (m, cs) = s.split_once(':').unwrap();
            let mut e = app.world_mut().spawn_empty();
            if m == "m1" {
                e.insert(Replicated);
            }
            if cs != "-" {
                for c in cs.split('.') {
                    let letter = c.chars().next().unwrap();
                    insert_comp(&mut e, letter, c[1..].parse().unwrap());
                }
            }
            ids.push(e.id());
        }
        let mut scene_ = DynamicScene::default();
        if pre {
            for (i, id) in ids.iter().enumerate() {
                if i % 2 == 0 {
                    scene_.entities.push(DynamicEntity {
                        entity: *id,
                        components: vec![Box::new(X(900 + i as u32)).into_partial_reflect()],
                    });
                }
            }
        }
        scene::replicate_into(&mut scene_, app.world());
        let mut ents: Vec<String> = scene_
            .entities
            .iter()
            .map(|de| {
                let idx = ids.iter().position(|i| *i == de.entity).map(|i| i as i64).unwrap_or(-1);
                let mut cs: Vec<String> = de.components.iter().map(|c| comp_str(c.as_ref())).collect();
                cs.sort();
                format!("{idx}:{}", if cs.is_empty() { "-".to_string() } else { cs.join(".") })
            })
            .collect();
        ents.sort_by_key(|s| s.split(':').next().unwrap().parse::<i64>().unwrap());
        // serialize and read back
        let registry = app.world().resource::<AppTypeRegistry>();
        let type_registry = &*registry.read();
        let ser = match scene_.serialize(type_registry) {
            Ok(text) => {
                let de = SceneDeserializer { type_registry };
                match ron::Deserializer::from_str(&text) {
                    Ok(mut d) => match de.deserialize(&mut d) {
                        Ok(back) => {
                            if back.entities.len() == scene_.entities.len() { "ok" } else { "count" }
                        }
                        Err(_) => "deser-fail",
                    },
                    Err(_) => "ron-fail",
                }
            }
            Err(_) => "ser-fail",
        };
        format!("scene={} ser={ser}", if ents.is_empty() { "-".to_string() } else { ents.join(";") })
    }));
    match res {
        Ok(s) => writeln!(out, "= {s}").unwrap(),
        Err(_) => writeln!(out, "= panic").unwrap(),
    }
}

pub fn generate(opts: &Opts, out: &mut Out) {
    let mut rng = Rng::new(opts.seed ^ 0xC18);
    let cases = if opts.thorough { 40_000 } else { 2_500 };
    for _ in 0..cases {
        let nr = match rng.below(5) { 0 => 0, 1 => 1, _ => rng.range(2, 6) };
        let mut rules: Vec<usize> = Vec::new();
        while rules.len() < nr as usize {
            let r = rng.below(MENU.len() as u64) as usize;
            if !rules.contains(&r) {
                rules.push(r);
            }
        }
        let ne = rng.range(0, 5);
        let mut specs = Vec::new();
        for _ in 0..ne {
            let marked = rng.chance(3, 4);
            let mut cs = Vec::new();
            for letter in ['A', 'B', 'C', 'D', 'E', 'F', 'X'] {
                let p = if letter == 'X' { 5 } else { 2 };
                if rng.chance(1, p) {
                    cs.push(format!("{letter}{}", rng.below(100)));
                }
            }
            specs.push(format!("m{}:{}", marked as u8, if cs.is_empty() { "-".to_string() } else { cs.join(".") }));
        }
        let rules_s: Vec<String> = rules.iter().map(|r| format!("{r}/{}", MENU[*r])).collect();
        exec(
            &format!(
                "c18 rules={} world={} pre={}",
                if rules_s.is_empty() { "-".to_string() } else { rules_s.join(",") },
                if specs.is_empty() { "-".to_string() } else { specs.join(";") },
                rng.chance(1, 4) as u8
            ),
            out,
        );
    }
}
