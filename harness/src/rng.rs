//! One deterministic PRNG (splitmix64); every random choice of the harness derives from it.

#[derive(Clone)]
pub struct Rng(pub u64);

impl Rng {
    pub fn new(seed: u64) -> Self {
        Rng(seed.wrapping_mul(0x9E37_79B9_7F4A_7C15) ^ 0xD1B5_4A32_D192_ED03)
    }
    pub fn next(&mut self) -> u64 {
        self.0 = self.0.wrapping_add(0x9E37_79B9_7F4A_7C15);
        let mut z = self.0;
        z = (z ^ (z >> 30)).wrapping_mul(0xBF58_476D_1CE4_E5B9);
        z = (z ^ (z >> 27)).wrapping_mul(0x94D0_49BB_1331_11EB);
        z ^ (z >> 31)
    }
    /// Uniform in `0..n` (n > 0).
    pub fn below(&mut self, n: u64) -> u64 {
        self.next() % n
    }
    pub fn range(&mut self, lo: u64, hi_incl: u64) -> u64 {
        lo + self.below(hi_incl - lo + 1)
    }
    pub fn chance(&mut self, num: u64, den: u64) -> bool {
        self.below(den) < num
    }
    pub fn pick<'a, T>(&mut self, xs: &'a [T]) -> &'a T {
        &xs[self.below(xs.len() as u64) as usize]
    }
    pub fn fork(&mut self) -> Rng {
        Rng::new(self.next())
    }
}

pub fn hex(bytes: &[u8]) -> String {
    if bytes.is_empty() {
        return "-".to_string();
    }
    let mut s = String::with_capacity(bytes.len() * 2);
    for b in bytes {
        s.push_str(&format!("{:02x}", b));
    }
    s
}

pub fn unhex(s: &str) -> Option<Vec<u8>> {
    if s == "-" {
        return Some(Vec::new());
    }
    if s.len() % 2 != 0 {
        return None;
    }
    (0..s.len() / 2)
        .map(|i| u8::from_str_radix(&s[2 * i..2 * i + 2], 16).ok())
        .collect()
}
