//! Replication system traces: a real server `App` and 1..3 real client `App`s, with the harness
//! acting as the network.  Every message is held in a per-client, per-direction, per-channel
//! queue and delivered / dropped by explicit actions, so server frames, ticks, client frames
//! and individual deliveries interleave arbitrarily within the channel contracts.
//!
//! Line protocol (inputs; observations are printed after them as `= …`):
//!   case <id> sys policy=<black|white> clients=<n> track=<0|1> sync=<0|1> auth=<none|check|custom>
//!   spawn <e> m=<0|1> [A=v] [B=v] [O=v] [P=v] [R=<e2>] [L=<len>]
//!   despawn <e> | ins <e> <K>=<v> | mut <e> <K>=<v> | rem <e> <K> | mark <e> <0|1>
//!   rel <e> <parent> | unrel <e>
//!   vis <c> <e> <0|1> | map <c> <e> <p> | cspawn <c> <p> | cdespawn <c> <p> | maxsize <c> <n>
//!   connect <c> | disconnect <c> | auth <c> | stop | start
//!   sframe tick=<0|1> [ms=<n>] | cframe <c>
//!   deliver <c> <s2c|c2s> <ch> <k> | drop <c> <s2c|c2s> <ch> <k> | junk <c> <ch> <hex>
//!   flush <rounds>
//!   end

use std::collections::VecDeque;
use std::io::Write;
use std::panic::{AssertUnwindSafe, catch_unwind};
use std::time::Duration;

use bevy::prelude::*;
use bevy::time::TimeUpdateStrategy;
use bevy_replicon::client::ServerUpdateTick;
use bevy_replicon::client::confirm_history::ConfirmHistory;
use bevy_replicon::prelude::*;
use bevy_replicon::server::server_tick::ServerTick;
use bevy_replicon::shared::server_entity_map::ServerEntityMap;
use serde::{Deserialize, Serialize};

use crate::rng::{Rng, hex, unhex};
use crate::{Opts, Out};

#[derive(Component, Serialize, Deserialize, Clone)]
pub struct A(pub u32);
#[derive(Component, Serialize, Deserialize, Clone)]
pub struct B(pub u32);
#[derive(Component, Serialize, Deserialize, Clone)]
pub struct O(pub u32);
#[derive(Component, Serialize, Deserialize, Clone)]
pub struct P(pub u32);
#[derive(Component, Serialize, Deserialize, Clone)]
pub struct R(#[entities] pub Entity);
#[derive(Component, Serialize, Deserialize, Clone)]
pub struct L(pub Vec<u8>);
/// Set by a system with the same run conditions as `send_replication`: did replication run?
#[derive(Resource, Default)]
struct ReplRan(bool);

/// never replicated
#[derive(Component, Serialize, Deserialize, Clone)]
pub struct N(#[allow(dead_code)] pub u32);

pub const PERIOD: u32 = 3;

// ---- remote events (profile `sys_evt`) -------------------------------------------------------
use bevy::ecs::entity::MapEntities;

#[derive(Event, Serialize, Deserialize, Clone)]
pub struct SeOrd(pub u32);
#[derive(Event, Serialize, Deserialize, Clone, MapEntities)]
pub struct SeMap(pub u32, #[entities] pub Entity);
#[derive(Event, Serialize, Deserialize, Clone)]
pub struct SeInd(pub u32);
#[derive(Event, Serialize, Deserialize, Clone)]
pub struct StOrd(pub u32);
#[derive(Event, Serialize, Deserialize, Clone)]
pub struct SeUnrel(pub u32);
#[derive(Event, Serialize, Deserialize, Clone)]
pub struct SeProbe(pub u32);
// triggers of the `sys_auth` profile: the first is registered as independent, the others are not
#[derive(Event, Serialize, Deserialize, Clone)]
pub struct StPa(pub u32);
#[derive(Event, Serialize, Deserialize, Clone)]
pub struct StPb(pub u32);
#[derive(Event, Serialize, Deserialize, Clone)]
pub struct StPc(pub u32);
#[derive(Event, Serialize, Deserialize, Clone)]
pub struct CeOrd(pub u32);
#[derive(Event, Serialize, Deserialize, Clone, MapEntities)]
pub struct CeMap(pub u32, #[entities] pub Entity);
#[derive(Event, Serialize, Deserialize, Clone)]
pub struct CtOrd(pub u32);

/// What the app's game logic observed since the last print.
#[derive(Resource, Default)]
pub struct EvLog(pub Vec<String>);

fn ent_str(e: Entity) -> String {
    format!("b{}", e.to_bits())
}

fn log_events(app: &mut App) {
    app.init_resource::<EvLog>();
    // events sent towards clients, as the receiving (or local) game logic sees them
    app.add_systems(
        Update,
        (
            |mut r: EventReader<SeOrd>, mut l: ResMut<EvLog>, t: Option<Res<ServerUpdateTick>>| {
                for e in r.read() { l.0.push(format!("ord:{}:u{}", e.0, t.as_ref().map(|t| t.get()).unwrap_or(0))); }
            },
            |mut r: EventReader<SeMap>, mut l: ResMut<EvLog>, t: Option<Res<ServerUpdateTick>>| {
                for e in r.read() { l.0.push(format!("map:{}:{}:u{}", e.0, ent_str(e.1), t.as_ref().map(|t| t.get()).unwrap_or(0))); }
            },
            |mut r: EventReader<SeInd>, mut l: ResMut<EvLog>| {
                for e in r.read() { l.0.push(format!("ind:{}", e.0)); }
            },
            |mut r: EventReader<SeUnrel>, mut l: ResMut<EvLog>, t: Option<Res<ServerUpdateTick>>| {
                for e in r.read() { l.0.push(format!("unrel:{}:u{}", e.0, t.as_ref().map(|t| t.get()).unwrap_or(0))); }
            },
            // events sent towards the server, as server-side logic sees them
            |mut r: EventReader<FromClient<CeOrd>>, mut l: ResMut<EvLog>| {
                for e in r.read() { l.0.push(format!("cord:{}:from{}", e.event.0, ent_str(e.client))); }
            },
            |mut r: EventReader<FromClient<CeMap>>, mut l: ResMut<EvLog>| {
                for e in r.read() { l.0.push(format!("cmap:{}:{}:from{}", e.event.0, ent_str(e.event.1), ent_str(e.client))); }
            },
        ),
    );
    app.add_observer(|tr: Trigger<StOrd>, mut l: ResMut<EvLog>, t: Option<Res<ServerUpdateTick>>| {
        l.0.push(format!("trig:{}:{}:u{}", tr.event().0, ent_str(tr.target()), t.as_ref().map(|t| t.get()).unwrap_or(0)));
    });
    app.add_observer(|tr: Trigger<FromClient<CtOrd>>, mut l: ResMut<EvLog>| {
        l.0.push(format!("ctrig:{}:{}:from{}", tr.event().event.0, ent_str(tr.target()), ent_str(tr.event().client)));
    });
}

#[derive(Clone)]
pub struct Cfg {
    /// bit mask of clients built with a different protocol (one more replicated component)
    pub wrong: u32,
    /// how those clients differ: 0 one more rule, 1 rules in another order, 2 another priority, 3 only the independence of an event
    pub wrongkind: u32,
    /// wrap-around cases: `ServerTick` is advanced by this much when the server starts (0: not such a case)
    pub tickbase: u32,
    /// C06 cases: client 0 is an attacker whose traffic is injected bytes
    pub junk: bool,
    pub events: bool,
    pub dedicated: bool,
    pub whitelist: bool,
    pub clients: usize,
    pub track: bool,
    pub sync: bool,
    pub auth: String,
}

impl Cfg {
    fn header(&self, id: u64) -> String {
        format!(
            "case {id} sys policy={} clients={} track={} sync={} auth={} events={} dedicated={}{}{}{}",
            if self.whitelist { "white" } else { "black" },
            self.clients,
            self.track as u8,
            self.sync as u8,
            self.auth,
            self.events as u8,
            self.dedicated as u8,
            if self.junk { " junk=1" } else { "" },
            if self.wrong != 0 { format!(" wrong={}{}", self.wrong, if self.wrongkind != 0 { format!(" wrongkind={}", self.wrongkind) } else { String::new() }) } else { String::new() },
            if self.tickbase != 0 { format!(" tickbase={}", self.tickbase) } else { String::new() }
        )
    }
    fn parse(line: &str) -> Cfg {
        let get = |k: &str| -> String {
            line.split(' ')
                .find_map(|t| t.strip_prefix(&format!("{k}=")).map(|s| s.to_string()))
                .unwrap_or_default()
        };
        Cfg {
            wrong: get("wrong").parse().unwrap_or(0),
            wrongkind: get("wrongkind").parse().unwrap_or(0),
            tickbase: get("tickbase").parse().unwrap_or(0),
            junk: get("junk") == "1",
            events: get("events") == "1",
            dedicated: get("dedicated") == "1",
            whitelist: get("policy") == "white",
            clients: get("clients").parse().unwrap_or(1),
            track: get("track") == "1",
            sync: get("sync") == "1",
            auth: { let a = get("auth"); if a.is_empty() { "none".into() } else { a } },
        }
    }
}

struct Cli {
    app: App,
    /// the `ConnectedClient` entity on the server while the session is up
    server_side: Option<Entity>,
    pre: Vec<Option<Entity>>,
    s2c: Vec<VecDeque<Vec<u8>>>,
    c2s: Vec<VecDeque<Vec<u8>>>,
    panicked: bool,
}

pub struct Sys {
    cfg: Cfg,
    server: App,
    clients: Vec<Cli>,
    ents: Vec<Option<Entity>>,
    alive: Vec<bool>,
    running: bool,
    server_panicked: bool,
    n_server_channels: usize,
    n_client_channels: usize,
    /// lengths of the mutate messages sent to client 0 in the last server frame
    last_mutate_lens: Vec<usize>,
    /// bytes injected with `junk` since the last server frame
    junk_bytes: usize,
}

fn auth_method(cfg: &Cfg) -> AuthMethod {
    match cfg.auth.as_str() {
        "check" => AuthMethod::ProtocolCheck,
        "custom" => AuthMethod::Custom,
        _ => AuthMethod::None,
    }
}

fn common(app: &mut App, cfg: &Cfg, is_server: bool, wrong: bool) {
    let group = RepliconPlugins
        .build()
        .set(ServerPlugin {
            tick_policy: TickPolicy::Manual,
            visibility_policy: if cfg.whitelist { VisibilityPolicy::Whitelist } else { VisibilityPolicy::Blacklist },
            mutations_timeout: Duration::from_millis(400),
        })
        .set(RepliconSharedPlugin { auth_method: auth_method(cfg) });
    // a dedicated server is built without the client-side plugins
    let group = if is_server && cfg.dedicated { group.disable::<ClientPlugin>().disable::<ClientEventPlugin>() } else { group };
    app.add_plugins((MinimalPlugins, group));
    app.insert_resource(TimeUpdateStrategy::ManualDuration(Duration::from_millis(10)));
    if cfg.track {
        use bevy_replicon::shared::replication::track_mutate_messages::TrackAppExt;
        app.track_mutate_messages();
    }
    if cfg.sync {
        app.sync_related_entities::<ChildOf>();
    }
    // a client built from different code: its protocol hash differs
    let kind = if wrong { cfg.wrongkind } else { 99 };
    match kind {
        1 => { app.replicate::<B>().replicate::<A>(); }
        2 => { app.replicate_with_priority(5, RuleFns::<A>::default()).replicate::<B>(); }
        _ => { app.replicate::<A>().replicate::<B>(); }
    }
    app.replicate_once::<O>()
        .replicate_periodic::<P>(PERIOD)
        .replicate::<R>()
        .replicate::<L>();
    if kind == 0 {
        app.replicate::<N>();
    }
    if !cfg.events {
        // an event nobody emits; client and server may disagree only about its independence
        app.add_server_event::<SeProbe>(Channel::Ordered);
        if kind != 3 {
            app.make_event_independent::<SeProbe>();
        }
        // three triggers (op `probe`); only the first is independent of replication
        app.add_server_trigger::<StPa>(Channel::Ordered)
            .add_server_trigger::<StPb>(Channel::Ordered)
            .add_server_trigger::<StPc>(Channel::Ordered)
            .make_trigger_independent::<StPa>();
    }
    if cfg.events {
        app.add_server_event::<SeOrd>(Channel::Ordered)
            .add_mapped_server_event::<SeMap>(Channel::Ordered)
            .add_server_event::<SeInd>(Channel::Ordered)
            .make_event_independent::<SeInd>()
            .add_server_trigger::<StOrd>(Channel::Ordered)
            .add_server_event::<SeUnrel>(Channel::Unreliable)
            .add_client_event::<CeOrd>(Channel::Ordered)
            .add_mapped_client_event::<CeMap>(Channel::Ordered)
            .add_client_trigger::<CtOrd>(Channel::Ordered);
        log_events(app);
    }
}

impl Sys {
    pub fn new(cfg: Cfg) -> Sys {
        let mut server = App::new();
        common(&mut server, &cfg, true, false);
        server.init_resource::<ReplRan>().add_systems(
            PostUpdate,
            (|mut r: ResMut<ReplRan>| r.0 = true)
                .in_set(ServerSet::Send)
                .run_if(server_running)
                .run_if(resource_changed::<ServerTick>),
        );
        server.finish();
        let (ns, nc) = {
            let ch = server.world().resource::<RepliconChannels>();
            (ch.server_channels().len(), ch.client_channels().len())
        };
        let mut clients = Vec::new();
        for c in 0..cfg.clients {
            let mut app = App::new();
            common(&mut app, &cfg, false, cfg.wrong & (1 << c) != 0);
            app.finish();
            clients.push(Cli {
                app,
                server_side: None,
                pre: Vec::new(),
                s2c: vec![VecDeque::new(); ns],
                c2s: vec![VecDeque::new(); nc],
                panicked: false,
            });
        }
        Sys {
            cfg,
            server,
            clients,
            ents: Vec::new(),
            alive: Vec::new(),
            running: false,
            server_panicked: false,
            n_server_channels: ns,
            n_client_channels: nc,
            last_mutate_lens: Vec::new(),
            junk_bytes: 0,
        }
    }

    fn ent(&self, i: usize) -> Option<Entity> {
        self.ents.get(i).copied().flatten().filter(|_| self.alive[i])
    }

    fn idx_of(&self, e: Entity) -> Option<usize> {
        // newest first: an index may be reused by Bevy after a despawn (generation differs)
        self.ents.iter().rposition(|x| *x == Some(e))
    }

    fn set_comp(w: &mut EntityWorldMut, k: &str, v: &str, ents: &dyn Fn(usize) -> Option<Entity>) -> bool {
        match k {
            "A" => { w.insert(A(v.parse().unwrap())); }
            "B" => { w.insert(B(v.parse().unwrap())); }
            "O" => { w.insert(O(v.parse().unwrap())); }
            "P" => { w.insert(P(v.parse().unwrap())); }
            "N" => { w.insert(N(v.parse().unwrap())); }
            "L" => { let n: usize = v.parse().unwrap(); w.insert(L((0..n).map(|i| (i * 13 + n) as u8).collect())); }
            "R" => match ents(v.parse().unwrap()) { Some(t) => { w.insert(R(t)); } None => return false },
            _ => return false,
        }
        true
    }

    /// Executes one input line, printing observations.
    pub fn step(&mut self, line: &str, out: &mut dyn Write) {
        let t: Vec<&str> = line.split(' ').collect();
        // `flush n` is expanded into its steps (`flushing n` … `flushed`), so that a recorded
        // stream replays exactly
        if t[0] == "flush" {
            writeln!(out, "flushing {}", t[1]).unwrap();
        } else {
            writeln!(out, "{line}").unwrap();
        }
        let us = |i: usize| -> usize { t[i].parse().unwrap() };
        if self.server_panicked && !matches!(t[0], "flush" | "flushing" | "flushed" | "cframe" | "deliver" | "drop" | "sframe") {
            // a server that panicked mid-system has lost the resources that system had taken out
            writeln!(out, "= skip").unwrap();
            return;
        }
        match t[0] {
            "spawn" => {
                let e = us(1);
                while self.ents.len() <= e {
                    self.ents.push(None);
                    self.alive.push(false);
                }
                if self.alive[e] {
                    writeln!(out, "= skip").unwrap();
                    return;
                }
                let ents = self.ents.clone();
                let alive = self.alive.clone();
                let look = move |i: usize| ents.get(i).copied().flatten().filter(|_| alive[i]);
                let mut w = self.server.world_mut().spawn_empty();
                let mut ok = true;
                for kv in &t[2..] {
                    let (k, v) = kv.split_once('=').unwrap();
                    if k == "m" {
                        if v == "1" { w.insert(Replicated); }
                    } else {
                        ok &= Self::set_comp(&mut w, k, v, &look);
                    }
                }
                let id = w.id();
                self.ents[e] = Some(id);
                self.alive[e] = true;
                writeln!(out, "= ent e={e} bits={} {}", id.to_bits(), if ok { "ok" } else { "partial" }).unwrap();
            }
            "despawn" => match self.ent(us(1)) {
                Some(id) => {
                    self.server.world_mut().entity_mut(id).despawn();
                    // children (ChildOf) are despawned with their parent by Bevy
                    for i in 0..self.ents.len() {
                        if self.alive[i] && self.server.world().get_entity(self.ents[i].unwrap()).is_err() {
                            self.alive[i] = false;
                        }
                    }
                    writeln!(out, "= ok alive={}", self.alive_list()).unwrap();
                }
                None => writeln!(out, "= skip").unwrap(),
            },
            "ins" | "mut" => match self.ent(us(1)) {
                Some(id) => {
                    let (k, v) = t[2].split_once('=').unwrap();
                    let ents = self.ents.clone();
                    let alive = self.alive.clone();
                    let look = move |i: usize| ents.get(i).copied().flatten().filter(|_| alive[i]);
                    let mut w = self.server.world_mut().entity_mut(id);
                    let ok = if t[0] == "mut" {
                        // in-place mutation through `Mut` (no structural change)
                        match k {
                            "A" => w.get_mut::<A>().map(|mut c| c.0 = v.parse().unwrap()).is_some(),
                            "B" => w.get_mut::<B>().map(|mut c| c.0 = v.parse().unwrap()).is_some(),
                            "O" => w.get_mut::<O>().map(|mut c| c.0 = v.parse().unwrap()).is_some(),
                            "P" => w.get_mut::<P>().map(|mut c| c.0 = v.parse().unwrap()).is_some(),
                            "L" => { let n: usize = v.parse().unwrap(); w.get_mut::<L>().map(|mut c| c.0 = (0..n).map(|i| (i * 13 + n) as u8).collect()).is_some() }
                            "R" => match look(v.parse().unwrap()) { Some(tg) => w.get_mut::<R>().map(|mut c| c.0 = tg).is_some(), None => false },
                            _ => false,
                        }
                    } else {
                        Self::set_comp(&mut w, k, v, &look)
                    };
                    writeln!(out, "= {}", if ok { "ok" } else { "skip" }).unwrap();
                }
                None => writeln!(out, "= skip").unwrap(),
            },
            "rem" => match self.ent(us(1)) {
                Some(id) => {
                    let mut w = self.server.world_mut().entity_mut(id);
                    let had = match t[2] {
                        "A" => w.take::<A>().is_some(),
                        "B" => w.take::<B>().is_some(),
                        "O" => w.take::<O>().is_some(),
                        "P" => w.take::<P>().is_some(),
                        "R" => w.take::<R>().is_some(),
                        "L" => w.take::<L>().is_some(),
                        _ => false,
                    };
                    writeln!(out, "= {}", if had { "ok" } else { "skip" }).unwrap();
                }
                None => writeln!(out, "= skip").unwrap(),
            },
            "mark" => match self.ent(us(1)) {
                Some(id) => {
                    let mut w = self.server.world_mut().entity_mut(id);
                    if t[2] == "1" { w.insert(Replicated); } else { w.remove::<Replicated>(); }
                    writeln!(out, "= ok").unwrap();
                }
                None => writeln!(out, "= skip").unwrap(),
            },
            "rel" => match (self.ent(us(1)), self.ent(us(2))) {
                (Some(a), Some(b)) if a != b && !self.is_ancestor(a, b) => {
                    self.server.world_mut().entity_mut(a).insert(ChildOf(b));
                    writeln!(out, "= ok").unwrap();
                }
                _ => writeln!(out, "= skip").unwrap(),
            },
            "unrel" => match self.ent(us(1)) {
                Some(a) => {
                    self.server.world_mut().entity_mut(a).remove::<ChildOf>();
                    writeln!(out, "= ok").unwrap();
                }
                None => writeln!(out, "= skip").unwrap(),
            },
            "vis" => {
                let c = us(1);
                match (self.clients.get(c).and_then(|c| c.server_side), self.ent(us(2))) {
                    (Some(ce), Some(e)) => {
                        let mut w = self.server.world_mut().entity_mut(ce);
                        match w.get_mut::<ClientVisibility>() {
                            Some(mut v) => {
                                v.set_visibility(e, t[3] == "1");
                                writeln!(out, "= ok").unwrap();
                            }
                            None => writeln!(out, "= skip").unwrap(),
                        }
                    }
                    _ => writeln!(out, "= skip").unwrap(),
                }
            }
            "cspawn" => {
                let (c, p) = (us(1), us(2));
                let cl = &mut self.clients[c];
                if cl.panicked { writeln!(out, "= skip").unwrap(); return; }
                while cl.pre.len() <= p { cl.pre.push(None); }
                let id = cl.app.world_mut().spawn(N(7)).id();
                cl.pre[p] = Some(id);
                writeln!(out, "= cent c={c} p={p} bits={}", id.to_bits()).unwrap();
            }
            "cdespawn" => {
                let (c, p) = (us(1), us(2));
                let cl = &mut self.clients[c];
                if cl.panicked { writeln!(out, "= skip").unwrap(); return; }
                match cl.pre.get(p).copied().flatten() {
                    Some(id) if cl.app.world().get_entity(id).is_ok() => {
                        cl.app.world_mut().entity_mut(id).despawn();
                        writeln!(out, "= ok").unwrap();
                    }
                    _ => writeln!(out, "= skip").unwrap(),
                }
            }
            "map" => {
                let (c, p) = (us(1), us(3));
                match (self.clients[c].server_side, self.ent(us(2)), self.clients[c].pre.get(p).copied().flatten()) {
                    (Some(ce), Some(e), Some(pe)) => {
                        let mut w = self.server.world_mut().entity_mut(ce);
                        match w.get_mut::<ClientEntityMap>() {
                            Some(mut m) => { m.insert(e, pe); writeln!(out, "= ok").unwrap(); }
                            None => writeln!(out, "= skip").unwrap(),
                        }
                    }
                    _ => writeln!(out, "= skip").unwrap(),
                }
            }
            "maxsize" => match self.clients[us(1)].server_side {
                Some(ce) => {
                    self.server.world_mut().entity_mut(ce).get_mut::<ConnectedClient>().unwrap().max_size = us(2);
                    writeln!(out, "= ok").unwrap();
                }
                None => writeln!(out, "= skip").unwrap(),
            },
            "start" => {
                if !self.running {
                    self.server.world_mut().resource_mut::<RepliconServer>().set_running(true);
                    self.running = true;
                    if self.cfg.tickbase != 0 {
                        // a server that has been up for a long time: its tick is about to wrap around
                        self.server.world_mut().resource_mut::<ServerTick>().bypass_change_detection().increment_by(self.cfg.tickbase);
                    }
                    writeln!(out, "= ok").unwrap();
                } else { writeln!(out, "= skip").unwrap(); }
            }
            "stop" => {
                if self.running {
                    self.server.world_mut().resource_mut::<RepliconServer>().set_running(false);
                    self.running = false;
                    // the transport drops every connection and, like a backend, removes its client
                    // entities (the library's own `reset` does so only if a frame saw the server running)
                    for c in 0..self.clients.len() {
                        if let Some(ce) = self.clients[c].server_side {
                            if self.server.world().get_entity(ce).is_ok() {
                                self.server.world_mut().entity_mut(ce).despawn();
                            }
                        }
                        self.cut(c);
                    }
                    writeln!(out, "= ok").unwrap();
                } else { writeln!(out, "= skip").unwrap(); }
            }
            "connect" => {
                let c = us(1);
                if self.running && self.clients[c].server_side.is_none() && !self.clients[c].panicked {
                    let ce = self.server.world_mut().spawn(ConnectedClient { max_size: 1200 }).id();
                    self.clients[c].server_side = Some(ce);
                    self.clients[c].app.world_mut().resource_mut::<RepliconClient>().set_status(RepliconClientStatus::Connected);
                    writeln!(out, "= ok client_entity={}", ce.to_bits()).unwrap();
                } else { writeln!(out, "= skip").unwrap(); }
            }
            "disconnect" => {
                let c = us(1);
                if self.clients[c].server_side.is_some() {
                    let ce = self.clients[c].server_side.unwrap();
                    self.cut(c);
                    if self.server.world().get_entity(ce).is_ok() {
                        self.server.world_mut().entity_mut(ce).despawn();
                    }
                    writeln!(out, "= ok").unwrap();
                } else { writeln!(out, "= skip").unwrap(); }
            }
            "auth" => match self.clients[us(1)].server_side {
                Some(ce) => { self.server.world_mut().entity_mut(ce).insert(AuthorizedClient); writeln!(out, "= ok").unwrap(); }
                None => writeln!(out, "= skip").unwrap(),
            },
            "sframe" => {
                // tick=0: no new tick; tick=K: `ServerTick::increment_by(K)` (manual tick policy)
                let tick: u32 = t[1]["tick=".len()..].parse().unwrap();
                let ms: u64 = t.get(2).and_then(|x| x.strip_prefix("ms=")).map(|x| x.parse().unwrap()).unwrap_or(10);
                self.sframe(tick, ms, out);
            }
            "cframe" => self.cframe(us(1), out),
            "deliver" | "drop" => {
                let (c, s2c, ch, k) = (us(1), t[2] == "s2c", us(3), us(4));
                let cl = &mut self.clients[c];
                let q = if s2c { cl.s2c.get_mut(ch) } else { cl.c2s.get_mut(ch) };
                match q.and_then(|q| q.remove(k)) {
                    Some(msg) => {
                        if t[0] == "deliver" {
                            if s2c {
                                // a client that panicked mid-system has lost the resources the system had taken out
                                if !cl.panicked {
                                    cl.app.world_mut().resource_mut::<RepliconClient>().insert_received(ch, msg.clone());
                                }
                            } else if let Some(ce) = cl.server_side.filter(|_| !self.server_panicked) {
                                self.server.world_mut().resource_mut::<RepliconServer>().insert_received(ce, ch, msg.clone());
                            }
                        }
                        writeln!(out, "= ok hex={}", hex(&msg)).unwrap();
                    }
                    None => writeln!(out, "= skip").unwrap(),
                }
            }
            "junk" => {
                let (c, ch) = (us(1), us(2));
                match (self.clients[c].server_side, if t[3] == "-" { Some(Vec::new()) } else { unhex(t[3]) }) {
                    (Some(ce), Some(bytes)) if ch < self.n_client_channels => {
                        self.junk_bytes += bytes.len() + 1;
                        self.server.world_mut().resource_mut::<RepliconServer>().insert_received(ce, ch, bytes);
                        writeln!(out, "= ok").unwrap();
                    }
                    _ => writeln!(out, "= skip").unwrap(),
                }
            }
            "flush" => {
                // quiescent suffix: ticks with full, in-order delivery and no operations
                let rounds = us(1);
                writeln!(out, "= ok").unwrap();
                for _ in 0..rounds {
                    self.step("sframe tick=1", out);
                    for c in 0..self.clients.len() {
                        for ch in 0..self.n_server_channels {
                            while !self.clients[c].s2c[ch].is_empty() {
                                self.step(&format!("deliver {c} s2c {ch} 0"), out);
                            }
                        }
                        self.step(&format!("cframe {c}"), out);
                        for ch in 0..self.n_client_channels {
                            while !self.clients[c].c2s[ch].is_empty() {
                                self.step(&format!("deliver {c} c2s {ch} 0"), out);
                            }
                        }
                    }
                }
                writeln!(out, "flushed").unwrap();
                writeln!(out, "= ok").unwrap();
            }
            "flushed" | "flushing" => writeln!(out, "= ok").unwrap(),
            "probe" if !self.cfg.events => {
                // probe <id>: broadcast the three triggers of the events-less protocol
                let id: u32 = t[1].parse().unwrap();
                if self.server_panicked {
                    writeln!(out, "= skip").unwrap();
                } else {
                    let w = self.server.world_mut();
                    w.server_trigger(ToClients { mode: SendMode::Broadcast, event: StPa(id) });
                    w.server_trigger(ToClients { mode: SendMode::Broadcast, event: StPb(id) });
                    w.server_trigger(ToClients { mode: SendMode::Broadcast, event: StPc(id) });
                    writeln!(out, "= ok").unwrap();
                }
            }
            "sev" if self.cfg.events => {
                // sev <kind> <id> <mode> [e]
                let id: u32 = t[2].parse().unwrap();
                let mode = match t[3] {
                    "b" => Some(SendMode::Broadcast),
                    "ds" => Some(SendMode::Direct(SERVER)),
                    "xs" => Some(SendMode::BroadcastExcept(SERVER)),
                    m => {
                        let c: usize = m[1..].parse().unwrap();
                        self.clients.get(c).and_then(|c| c.server_side).map(|ce| {
                            if m.starts_with('x') { SendMode::BroadcastExcept(ce) } else { SendMode::Direct(ce) }
                        })
                    }
                };
                let target = t.get(4).and_then(|x| x.parse::<usize>().ok()).and_then(|i| self.ent(i));
                match (mode, t[1]) {
                    (Some(mode), "ord") => { self.server.world_mut().send_event(ToClients { mode, event: SeOrd(id) }); writeln!(out, "= ok").unwrap(); }
                    (Some(mode), "ind") => { self.server.world_mut().send_event(ToClients { mode, event: SeInd(id) }); writeln!(out, "= ok").unwrap(); }
                    (Some(mode), "unrel") => { self.server.world_mut().send_event(ToClients { mode, event: SeUnrel(id) }); writeln!(out, "= ok").unwrap(); }
                    (Some(mode), "map") if target.is_some() => {
                        self.server.world_mut().send_event(ToClients { mode, event: SeMap(id, target.unwrap()) });
                        writeln!(out, "= ok").unwrap();
                    }
                    (Some(mode), "trig") if target.is_some() => {
                        self.server.world_mut().server_trigger_targets(ToClients { mode, event: StOrd(id) }, target.unwrap());
                        writeln!(out, "= ok").unwrap();
                    }
                    _ => writeln!(out, "= skip").unwrap(),
                }
            }
            "cev" if self.cfg.events => {
                // cev <client|s> <kind> <id> [e]
                let id: u32 = t[3].parse().unwrap();
                let e_idx = t.get(4).and_then(|x| x.parse::<usize>().ok());
                if t[1] == "s" {
                    let target = e_idx.and_then(|i| self.ent(i));
                    let w = self.server.world_mut();
                    match (t[2], target) {
                        ("ord", _) => { w.send_event(CeOrd(id)); writeln!(out, "= ok").unwrap(); }
                        ("map", Some(tg)) => { w.send_event(CeMap(id, tg)); writeln!(out, "= ok").unwrap(); }
                        ("trig", Some(tg)) => { w.client_trigger_targets(CtOrd(id), tg); writeln!(out, "= ok").unwrap(); }
                        _ => writeln!(out, "= skip").unwrap(),
                    }
                } else {
                    let c: usize = t[1].parse().unwrap();
                    let se = e_idx.and_then(|i| self.ents.get(i).copied().flatten());
                    let cl = &mut self.clients[c];
                    if cl.panicked { writeln!(out, "= skip").unwrap(); return; }
                    let mapped = se.and_then(|se| cl.app.world().resource::<ServerEntityMap>().to_client().get(&se).copied());
                    let w = cl.app.world_mut();
                    match (t[2], e_idx) {
                        ("ord", _) => { w.send_event(CeOrd(id)); writeln!(out, "= ok").unwrap(); }
                        ("map", Some(_)) => {
                            // an entity the server does not know makes the event unsendable
                            let tg = mapped.unwrap_or_else(|| w.spawn(N(9)).id());
                            w.send_event(CeMap(id, tg));
                            writeln!(out, "= ok mapped={} ce={}", mapped.is_some() as u8, tg.to_bits()).unwrap();
                        }
                        ("trig", Some(_)) => {
                            let tg = mapped.unwrap_or_else(|| w.spawn(N(9)).id());
                            w.client_trigger_targets(CtOrd(id), tg);
                            writeln!(out, "= ok mapped={} ce={}", mapped.is_some() as u8, tg.to_bits()).unwrap();
                        }
                        _ => writeln!(out, "= skip").unwrap(),
                    }
                }
            }
            _ => writeln!(out, "= skip unknown").unwrap(),
        }
    }

    /// Prints and clears an app's event log; entity bits are translated to harness indices.
    fn print_evlog(&mut self, who: Option<usize>, out: &mut dyn Write) {
        if !self.cfg.events { return; }
        let entries: Vec<String> = match who {
            None => std::mem::take(&mut self.server.world_mut().resource_mut::<EvLog>().0),
            Some(c) => std::mem::take(&mut self.clients[c].app.world_mut().resource_mut::<EvLog>().0),
        };
        let to_server: Vec<(Entity, Entity)> = match who {
            Some(c) => self.clients[c].app.world().resource::<ServerEntityMap>().to_server().iter().map(|(c, s)| (*c, *s)).collect(),
            None => Vec::new(),
        };
        let tr: Vec<String> = entries
            .iter()
            .map(|e| {
                e.split(':')
                    .map(|tok| {
                        let (pre, bits) = if let Some(b) = tok.strip_prefix("fromb") { ("from", b) } else if let Some(b) = tok.strip_prefix('b') { ("@", b) } else { return tok.to_string() };
                        let Ok(bits) = bits.parse::<u64>() else { return tok.to_string() };
                        let ent = Entity::from_bits(bits);
                        if ent == Entity::PLACEHOLDER { return format!("{pre}S"); }
                        if pre == "from" {
                            return match self.clients.iter().position(|c| c.server_side == Some(ent)) { Some(c) => format!("from{c}"), None => "from?".to_string() };
                        }
                        // an entity reference: on a client translate through its entity map
                        let server_ent = match who { Some(_) => to_server.iter().find(|(c, _)| *c == ent).map(|(_, s)| *s), None => Some(ent) };
                        match server_ent.and_then(|s| self.idx_of(s)) { Some(i) => format!("@{i}"), None => "@?".to_string() }
                    })
                    .collect::<Vec<_>>()
                    .join(":")
            })
            .collect();
        let name = match who { None => "s".to_string(), Some(c) => format!("c{c}") };
        writeln!(out, "= evlog {name} {}", if tr.is_empty() { "-".to_string() } else { tr.join(",") }).unwrap();
    }

    fn is_ancestor(&self, a: Entity, mut b: Entity) -> bool {
        // would `a` become its own ancestor?
        for _ in 0..64 {
            match self.server.world().get::<ChildOf>(b) {
                Some(p) => { if p.parent() == a { return true; } b = p.parent(); }
                None => return false,
            }
        }
        true
    }

    fn alive_list(&self) -> String {
        let v: Vec<String> = (0..self.ents.len()).filter(|&i| self.alive[i]).map(|i| i.to_string()).collect();
        if v.is_empty() { "-".into() } else { v.join(",") }
    }

    /// The transport reports the end of the session to both sides; queued traffic is gone.
    fn cut(&mut self, c: usize) {
        let cl = &mut self.clients[c];
        cl.server_side = None;
        for q in cl.s2c.iter_mut().chain(cl.c2s.iter_mut()) { q.clear(); }
        if !cl.panicked {
            cl.app.world_mut().resource_mut::<RepliconClient>().set_status(RepliconClientStatus::Disconnected);
        }
    }

    fn sframe(&mut self, tick: u32, ms: u64, out: &mut dyn Write) {
        if self.server_panicked {
            writeln!(out, "= skip").unwrap();
            return;
        }
        self.server.insert_resource(TimeUpdateStrategy::ManualDuration(Duration::from_millis(ms)));
        if tick == 1 && self.running {
            self.server.world_mut().resource_mut::<ServerTick>().increment();
        } else if tick > 1 && self.running {
            self.server.world_mut().resource_mut::<ServerTick>().increment_by(tick);
        }
        self.server.world_mut().resource_mut::<ReplRan>().0 = false;
        let junk = std::mem::take(&mut self.junk_bytes);
        if junk > 0 {
            // if the process dies in this frame the trace so far must be out
            out.flush().unwrap();
            crate::ALLOC_MAX.store(0, std::sync::atomic::Ordering::Relaxed);
            crate::ALLOC_TRACK.store(true, std::sync::atomic::Ordering::Relaxed);
        }
        let r = catch_unwind(AssertUnwindSafe(|| self.server.update()));
        crate::ALLOC_TRACK.store(false, std::sync::atomic::Ordering::Relaxed);
        if r.is_err() {
            self.server_panicked = true;
            writeln!(out, "= panic server").unwrap();
            return;
        }
        if junk > 0 {
            writeln!(out, "= alloc max={} junk={}", crate::ALLOC_MAX.load(std::sync::atomic::Ordering::Relaxed), junk).unwrap();
        }
        // the backend's part of the handshake: a client the server asks to disconnect is dropped
        // (after this frame's messages and observations were attributed to it)
        let requests: Vec<Entity> = self.server.world_mut().resource_mut::<Events<DisconnectRequest>>().drain().map(|r| r.client).collect();
        let mut to_cut = Vec::new();
        for e in requests {
            match self.clients.iter().position(|c| c.server_side == Some(e)) {
                Some(c) => { writeln!(out, "= disc c={c}").unwrap(); to_cut.push((c, e)); }
                None => writeln!(out, "= disc c=?").unwrap(),
            }
        }
        // clients whose entity disappeared (stop)
        for c in 0..self.clients.len() {
            if let Some(ce) = self.clients[c].server_side {
                if self.server.world().get_entity(ce).is_err() {
                    self.cut(c);
                }
            }
        }
        let sent: Vec<(Entity, usize, Vec<u8>)> = self
            .server
            .world_mut()
            .resource_mut::<RepliconServer>()
            .drain_sent()
            .map(|(e, ch, b)| (e, ch, b.to_vec()))
            .collect();
        self.last_mutate_lens.clear();
        for (e, ch, b) in sent {
            match self.clients.iter().position(|c| c.server_side == Some(e)) {
                Some(c) => {
                    if c == 0 && ch == 1 {
                        self.last_mutate_lens.push(b.len());
                    }
                    writeln!(out, "= sent c={c} ch={ch} hex={}", hex(&b)).unwrap();
                    self.clients[c].s2c[ch].push_back(b);
                }
                None => writeln!(out, "= sent c=? ch={ch} hex={}", hex(&b)).unwrap(),
            }
        }
        self.print_evlog(None, out);
        for (c, e) in to_cut {
            self.cut(c);
            if self.server.world().get_entity(e).is_ok() {
                self.server.world_mut().entity_mut(e).despawn();
            }
        }
        self.print_server(out);
    }

    fn print_server(&mut self, out: &mut dyn Write) {
        let tick = self.server.world().resource::<ServerTick>().get();
        let mut ents = Vec::new();
        for i in 0..self.ents.len() {
            if !self.alive[i] { continue; }
            let id = self.ents[i].unwrap();
            let Ok(e) = self.server.world().get_entity(id) else { continue };
            let mut cs = Vec::new();
            if let Some(c) = e.get::<A>() { cs.push(format!("A={}", c.0)); }
            if let Some(c) = e.get::<B>() { cs.push(format!("B={}", c.0)); }
            if let Some(c) = e.get::<O>() { cs.push(format!("O={}", c.0)); }
            if let Some(c) = e.get::<P>() { cs.push(format!("P={}", c.0)); }
            if let Some(c) = e.get::<R>() { cs.push(match self.idx_of(c.0) { Some(j) => format!("R={j}"), None => "R=?".to_string() }); }
            if let Some(c) = e.get::<L>() { cs.push(format!("L={}", c.0.len())); }
            let parent = e.get::<ChildOf>().and_then(|p| self.idx_of(p.parent())).map(|j| j.to_string()).unwrap_or("-".into());
            ents.push(format!("{i}:m{}:p{parent}:{}", e.contains::<Replicated>() as u8, if cs.is_empty() { "-".to_string() } else { cs.join(",") }));
        }
        let mut cl = Vec::new();
        for (c, client) in self.clients.iter().enumerate() {
            let Some(ce) = client.server_side else { continue };
            let Ok(e) = self.server.world().get_entity(ce) else { continue };
            let auth = e.contains::<AuthorizedClient>() as u8;
            let max = e.get::<ConnectedClient>().map(|c| c.max_size).unwrap_or(0);
            let vis: Vec<String> = match e.get::<ClientVisibility>() {
                Some(v) => (0..self.ents.len()).filter(|&i| self.alive[i] && v.is_visible(self.ents[i].unwrap())).map(|i| i.to_string()).collect(),
                None => vec!["none".to_string()],
            };
            cl.push(format!("{c}:a{auth}:x{max}:{}", if vis.is_empty() { "-".to_string() } else { vis.join(",") }));
        }
        writeln!(
            out,
            "= srv tick={tick} run={} repl={} ents={} clients={}",
            self.running as u8,
            self.server.world().resource::<ReplRan>().0 as u8,
            if ents.is_empty() { "-".to_string() } else { ents.join("|") },
            if cl.is_empty() { "-".to_string() } else { cl.join("|") }
        )
        .unwrap();
    }

    fn cframe(&mut self, c: usize, out: &mut dyn Write) {
        if self.clients[c].panicked {
            writeln!(out, "= skip").unwrap();
            return;
        }
        let r = {
            let cl = &mut self.clients[c];
            catch_unwind(AssertUnwindSafe(|| cl.app.update()))
        };
        if r.is_err() {
            self.clients[c].panicked = true;
            writeln!(out, "= panic client").unwrap();
            return;
        }
        let connected = self.clients[c].server_side.is_some();
        let sent: Vec<(usize, Vec<u8>)> = self.clients[c]
            .app
            .world_mut()
            .resource_mut::<RepliconClient>()
            .drain_sent()
            .map(|(ch, b)| (ch, b.to_vec()))
            .collect();
        for (ch, b) in sent {
            writeln!(out, "= csent c={c} ch={ch} hex={}", hex(&b)).unwrap();
            if connected { self.clients[c].c2s[ch].push_back(b); }
        }
        self.print_evlog(Some(c), out);
        // client view
        let upd = self.clients[c].app.world().resource::<ServerUpdateTick>().get();
        let map: Vec<(Entity, Entity)> = self.clients[c].app.world().resource::<ServerEntityMap>().to_client().iter().map(|(s, c)| (*s, *c)).collect();
        let to_server: Vec<(Entity, Entity)> = self.clients[c].app.world().resource::<ServerEntityMap>().to_server().iter().map(|(c, s)| (*c, *s)).collect();
        let mut consistent = map.len() == to_server.len();
        for (s, ce) in &map { consistent &= to_server.iter().any(|(c2, s2)| c2 == ce && s2 == s); }
        let mut rows: Vec<(String, String)> = Vec::new();
        for (s, ce) in &map {
            let key = match self.idx_of(*s) { Some(i) => format!("{i}"), None => format!("x{}", s.to_bits()) };
            let w = self.clients[c].app.world();
            let row = match w.get_entity(*ce) {
                Ok(e) => {
                    let mut cs = Vec::new();
                    if let Some(x) = e.get::<A>() { cs.push(format!("A={}", x.0)); }
                    if let Some(x) = e.get::<B>() { cs.push(format!("B={}", x.0)); }
                    if let Some(x) = e.get::<O>() { cs.push(format!("O={}", x.0)); }
                    if let Some(x) = e.get::<P>() { cs.push(format!("P={}", x.0)); }
                    if let Some(x) = e.get::<R>() {
                        // translate the client-side target back to a server entity index
                        let tgt = to_server.iter().find(|(c2, _)| *c2 == x.0).and_then(|(_, s2)| self.idx_of(*s2));
                        cs.push(match tgt { Some(j) => format!("R={j}"), None => "R=?".to_string() });
                    }
                    if let Some(x) = e.get::<L>() { cs.push(format!("L={}", x.0.len())); }
                    let h = e.get::<ConfirmHistory>().map(|h| format!("{}/{}", h.last_tick().get(), h.mask())).unwrap_or("none".into());
                    let pre = self.clients[c].pre.iter().position(|p| *p == Some(*ce)).map(|p| format!("p{p}")).unwrap_or("f".into());
                    format!("{key}:m{}:{pre}:h{h}:{}", e.contains::<Replicated>() as u8, if cs.is_empty() { "-".to_string() } else { cs.join(",") })
                }
                Err(_) => format!("{key}:dead"),
            };
            rows.push((key, row));
        }
        rows.sort_by(|a, b| a.0.cmp(&b.0));
        // which client entity stands for which server entity (events captured the client entity when they were emitted)
        let cbits = if self.cfg.events {
            let v: Vec<String> = map.iter().filter_map(|(s, ce)| self.idx_of(*s).map(|i| format!("{i}>{}", ce.to_bits()))).collect();
            format!(" cbits={}", if v.is_empty() { "-".to_string() } else { v.join(",") })
        } else { String::new() };
        let nrep = self.clients[c].app.world_mut().query_filtered::<Entity, With<Replicated>>().iter(self.clients[c].app.world()).count();
        let status = if self.clients[c].app.world().resource::<RepliconClient>().is_connected() { 1 } else { 0 };
        // `MutateTickReceived` events of this frame (tracking on)
        let mtr = if self.cfg.track {
            let ticks: Vec<String> = self.clients[c]
                .app
                .world_mut()
                .resource_mut::<Events<bevy_replicon::client::server_mutate_ticks::MutateTickReceived>>()
                .drain()
                .map(|e| e.tick.get().to_string())
                .collect();
            format!(" mtr={}", if ticks.is_empty() { "-".to_string() } else { ticks.join(",") })
        } else {
            String::new()
        };
        writeln!(
            out,
            "= cli c={c} conn={status} upd={upd} mapok={} nrep={nrep}{mtr}{cbits} ents={}",
            consistent as u8,
            if rows.is_empty() { "-".to_string() } else { rows.into_iter().map(|r| r.1).collect::<Vec<_>>().join("|") }
        )
        .unwrap();
    }
}

pub fn exec_case(lines: &[String], out: &mut dyn Write) {
    let cfg = Cfg::parse(&lines[0]);
    writeln!(out, "{}", lines[0]).unwrap();
    let mut sys = Sys::new(cfg);
    for l in &lines[1..] {
        sys.step(l, out);
    }
    writeln!(out, "end").unwrap();
}

// ------------------------------------------------------------------------------------------
// generators

struct Gen {
    rng: Rng,
    sys: Sys,
    buf: Vec<u8>,
    /// `mut` lines issued since the last tick (to repeat them against an exactly fitting size)
    window_muts: Vec<String>,
    probe_id: u32,
    /// the case number: scenarios keyed by it draw nothing from `rng`, so adding one leaves the other cases as they were
    case_id: u64,
    next_ent: usize,
    next_pre: Vec<usize>,
    val: u32,
}

pub fn generate(opts: &Opts, profile: &str, out: &mut Out) {
    let mut rng = Rng::new(opts.seed ^ 0x5157);
    let cases: u64 = opts.budget.unwrap_or(if opts.thorough { 300000 } else { 1500 });
    let (shard, nshards) = opts.shard;
    for id in 0..cases {
        let mut crng = rng.fork();
        if id % nshards != shard { continue; }
        let cfg = match profile {
            "sys_vis" => Cfg { wrong: 0, wrongkind: 0, tickbase: 0, junk: false, events: false, dedicated: false, whitelist: crng.chance(1, 2), clients: crng.range(1, 2) as usize, track: false, sync: false, auth: "none".into() },
            "sys_split" => Cfg { wrong: 0, wrongkind: 0, tickbase: 0, junk: false, events: false, dedicated: false, whitelist: false, clients: 1, track: crng.chance(1, 3), sync: crng.chance(2, 3), auth: "none".into() },
            "sys_track" => Cfg { wrong: 0, wrongkind: 0, tickbase: 0, junk: false, events: false, dedicated: false, whitelist: false, clients: 1, track: true, sync: crng.chance(1, 3), auth: "none".into() },
            "sys_auth" => {
                let clients = crng.range(1, 3) as usize;
                let auth: String = (*crng.pick(&["check", "check", "custom", "none"])).into();
                // under the default protocol check some clients come from different code
                let wrong = if auth == "check" && crng.chance(1, 2) { (crng.below(1 << clients) as u32).max(1) } else { 0 };
                let wrongkind = if wrong != 0 { crng.below(4) as u32 } else { 0 };
                Cfg { wrong, wrongkind, tickbase: 0, junk: false, events: false, dedicated: false, whitelist: crng.chance(1, 3), clients, track: false, sync: false, auth }
            }
            "sys_junk" => Cfg {
                wrong: 0,
                wrongkind: 0,
                tickbase: 0,
                junk: true,
                events: true,
                dedicated: crng.chance(1, 4),
                whitelist: false,
                clients: 2,
                track: false,
                sync: false,
                // the exhaustive cases come first and use the configuration with all five channel kinds
                auth: if id < (if opts.thorough { 10300 } else { 64 }) { "check".into() } else { (*crng.pick(&["none", "custom", "check", "check"])).into() },
            },
            "sys_evt" => Cfg {
                wrong: 0,
                wrongkind: 0,
                tickbase: 0,
                junk: false,
                events: true,
                dedicated: crng.chance(1, 4),
                whitelist: crng.chance(1, 5),
                clients: crng.range(1, 3) as usize,
                track: false,
                sync: false,
                auth: (*crng.pick(&["none", "none", "none", "custom"])).into(),
            },
            _ => Cfg {
                wrong: 0,
                wrongkind: 0,
                tickbase: 0,
                junk: false,
                events: false,
                dedicated: false,
                whitelist: crng.chance(1, 4),
                clients: crng.range(1, 3) as usize,
                track: crng.chance(1, 5),
                sync: crng.chance(1, 4),
                auth: "none".into(),
            },
        };
        // profile `sys`: one case in twelve runs a server whose tick wraps around during the case
        let mut cfg = cfg;
        if (profile == "sys" || profile == "sys_evt") && id % 12 == 7 {
            cfg.tickbase = u32::MAX - crng.range(1, 30) as u32;
        }
        let wrap_case = cfg.tickbase != 0;
        writeln!(out, "{}", cfg.header(id)).unwrap();
        let nclients = cfg.clients;
        let mut g = Gen { rng: crng, sys: Sys::new(cfg), buf: Vec::new(), window_muts: Vec::new(), probe_id: 0, case_id: id, next_ent: 0, next_pre: vec![0; nclients], val: 1 };
        if wrap_case {
            g.run_wrap(profile);
        } else if profile == "sys_junk" {
            // legitimate event ids stay clear of anything short injected strings decode to
            g.val = 3_000_000_000;
            g.run_junk(id, opts.thorough, out);
        } else {
            // sys_track: the sys_split histories with per-tick tracking always on
            g.run(if profile == "sys_track" { "sys_split" } else { profile });
        }
        out.write_all(&g.buf).unwrap();
        writeln!(out, "end").unwrap();
    }
}

/// postcard varint
fn varint(mut v: u64) -> Vec<u8> {
    let mut o = Vec::new();
    loop {
        let b = (v & 0x7f) as u8;
        v >>= 7;
        if v == 0 { o.push(b); return o; }
        o.push(b | 0x80);
    }
}

impl Gen {
    /// the trace so far goes out before a step that may kill the process
    fn drain(&mut self, out: &mut Out) {
        out.write_all(&self.buf).unwrap();
        self.buf.clear();
        out.flush().unwrap();
    }

    fn channel_kinds(&self) -> Vec<&'static str> {
        if self.sys.cfg.auth == "check" { vec!["acks", "hash", "ord", "map", "trig"] } else { vec!["acks", "ord", "map", "trig"] }
    }

    /// a well-formed message for a channel kind
    fn template(&mut self, kind: &str) -> Vec<u8> {
        let id = self.rng.below(1000);
        let ent_bits = match self.live() {
            Some(i) if self.rng.chance(3, 4) => self.sys.ents[i].unwrap().to_bits(),
            _ => ((self.rng.range(1, 3)) << 32) | self.rng.below(20),
        };
        let compact = |bits: u64| -> Vec<u8> {
            let (idx, generation) = (bits & 0xffff_ffff, bits >> 32);
            if generation > 1 { let mut v = varint(idx * 2 + 1); v.extend(varint(generation - 1)); v } else { varint(idx * 2) }
        };
        match kind {
            "acks" => {
                let n = self.rng.range(1, 4);
                (0..n).flat_map(|_| { let i = self.rng.below(6) as u16; i.to_le_bytes() }).collect()
            }
            "ord" => varint(id),
            "map" => { let mut v = varint(id); v.extend(varint(ent_bits)); v }
            "hash" => {
                // the real message if the attacker's app produced one, else a plausible one
                let mut v = vec![0u8];
                v.extend(varint(self.rng.next()));
                v
            }
            _ => {
                let n = self.rng.below(4);
                let mut v = varint(n);
                for _ in 0..n { v.extend(compact(ent_bits)); }
                v.extend(varint(id));
                v
            }
        }
    }

    fn mutate(&mut self, mut m: Vec<u8>) -> Vec<u8> {
        let huge: [&[u8]; 7] = [
            &[0xff, 0xff, 0xff, 0xff, 0xff, 0xff, 0xff, 0xff, 0xff, 0x01],
            &[0xff, 0xff, 0xff, 0xff, 0xff, 0xff, 0xff, 0xff, 0x7f],
            &[0xff, 0xff, 0xff, 0xff, 0x0f],
            &[0x80, 0x80, 0x80, 0x80, 0x80, 0x80, 0x80, 0x80, 0x80, 0x80, 0x80],
            &[0x01, 0xff, 0xff, 0xff, 0xff, 0x0f],
            &[0x01, 0xff, 0xff, 0xff, 0xff, 0x07],
            &[0xff, 0xff, 0xff, 0xff, 0xff, 0xff, 0xff, 0xff, 0xff, 0xff, 0xff],
        ];
        match self.rng.below(10) {
            0 => {}
            1 => { let n = self.rng.below(m.len() as u64 + 1) as usize; m.truncate(n); }
            2 => { for _ in 0..self.rng.range(1, 6) { m.push(self.rng.below(256) as u8); } }
            3 if !m.is_empty() => { let i = self.rng.below(m.len() as u64) as usize; m[i] ^= 1 << self.rng.below(8); }
            4 if !m.is_empty() => { let i = self.rng.below(m.len() as u64) as usize; m[i] = *self.rng.pick(&[0u8, 0x7f, 0x80, 0xff]); }
            5 => { let h = *self.rng.pick(&huge); let mut v = h.to_vec(); v.extend(m); m = v; }
            6 => { let h = *self.rng.pick(&huge); let i = self.rng.below(m.len() as u64 + 1) as usize; let tail = m.split_off(i); m.extend_from_slice(h); m.extend(tail); }
            7 => { m = (0..self.rng.below(12)).map(|_| self.rng.below(256) as u8).collect(); }
            8 => { let n = self.rng.range(50, 400); m.extend((0..n).map(|_| 0xffu8)); }
            _ => { m.insert(0, self.rng.range(1, 200) as u8); }
        }
        m
    }

    /// C06: client 0 injects bytes on every client channel of a live server while client 1
    /// behaves; afterwards everything is flushed and client 1 must have converged.
    fn run_junk(&mut self, id: u64, thorough: bool, out: &mut Out) {
        self.step("start".into());
        for _ in 0..self.rng.range(1, 3) { self.spawn("sys"); }
        self.step("connect 0".into());
        self.step("connect 1".into());
        let kinds = self.channel_kinds();
        let attacker_authorized = id % 2 == 0;
        match self.sys.cfg.auth.as_str() {
            "custom" => {
                self.step("auth 1".into());
                if attacker_authorized { self.step("auth 0".into()); }
            }
            "check" => {
                for c in [1usize, 0] {
                    if c == 0 && !attacker_authorized { continue; }
                    self.step(format!("cframe {c}"));
                    while !self.sys.clients[c].c2s[1].is_empty() { self.step(format!("deliver {c} c2s 1 0")); }
                }
            }
            _ => {}
        }
        self.step("sframe tick=1".into());
        self.network(0);
        self.step("cframe 1".into());
        // the exhaustive part: every string up to a small length on every channel
        let per_case = 64u64;
        let space: u64 = if thorough { 1 + 256 + 65536 } else { 1 + 256 };
        let total = space * kinds.len() as u64;
        let exhaustive_cases = 2 * ((total + per_case - 1) / per_case);
        let mut injected = 0;
        if id < exhaustive_cases {
            let first = (id / 2) * per_case;
            for k in first..(first + per_case).min(total) {
                let ch = (k / space) as usize;
                let j = k % space;
                let bytes: Vec<u8> = if j == 0 { vec![] } else if j <= 256 { vec![(j - 1) as u8] } else { vec![((j - 257) >> 8) as u8, ((j - 257) & 0xff) as u8] };
                self.step(format!("junk 0 {ch} {}", if bytes.is_empty() { "-".to_string() } else { hex(&bytes) }));
                injected += 1;
                if injected % 8 == 0 {
                    self.drain(out);
                    self.step("sframe tick=1".into());
                }
            }
        } else {
            let steps = self.rng.range(8, 40);
            for _ in 0..steps {
                match self.rng.below(100) {
                    0..=54 => {
                        let ch = self.rng.below(kinds.len() as u64) as usize;
                        let t = self.template(kinds[ch]);
                        let m = self.mutate(t);
                        self.step(format!("junk 0 {ch} {}", if m.is_empty() { "-".to_string() } else { hex(&m) }));
                        if self.rng.chance(1, 3) {
                            // a well-formed event of the other client queued behind it in the same tick
                            let id = self.v();
                            self.step(format!("cev 1 ord {id}"));
                            self.step("cframe 1".into());
                            for ch in 0..self.sys.n_client_channels {
                                while !self.sys.clients[1].c2s[ch].is_empty() { self.step(format!("deliver 1 c2s {ch} 0")); }
                            }
                        }
                    }
                    55..=74 => {
                        self.drain(out);
                        let tick = self.rng.chance(2, 3) as u8;
                        self.step(format!("sframe tick={tick}"));
                        self.network(0);
                    }
                    75..=84 => self.world_op("sys"),
                    85..=92 => { self.network(0); let c = self.rng.below(2); self.step(format!("cframe {c}")); }
                    93..=95 => {
                        let id = self.v();
                        self.step(format!("cev 1 ord {id}"));
                    }
                    96..=97 if self.sys.cfg.auth == "custom" => self.step("auth 0".into()),
                    96..=97 if self.sys.cfg.auth == "check" && !self.sys.clients[0].panicked => {
                        // the handshake arrives and the connection is gone before the server looks at it
                        if self.sys.clients[0].server_side.is_none() { self.step("connect 0".into()); }
                        self.step("cframe 0".into());
                        while !self.sys.clients[0].c2s[1].is_empty() { self.step("deliver 0 c2s 1 0".into()); }
                        self.step("disconnect 0".into());
                        self.drain(out);
                        self.step("sframe tick=1".into());
                        // the client sees the end of its session (with the default protocol check
                        // this is where known finding F13 panics the client app)
                        self.step("cframe 0".into());
                    }
                    _ => {
                        let id = self.v();
                        self.step(format!("sev ord {id} b"));
                    }
                }
            }
        }
        self.drain(out);
        self.step("sframe tick=1".into());
        self.step(format!("flush {}", 3 + PERIOD + 1));
    }
}

impl Gen {
    fn step(&mut self, line: String) {
        self.sys.step(&line, &mut self.buf);
    }

    fn v(&mut self) -> u32 {
        self.val += 1;
        self.val
    }

    fn live(&mut self) -> Option<usize> {
        let l: Vec<usize> = (0..self.sys.ents.len()).filter(|&i| self.sys.alive[i]).collect();
        if l.is_empty() { None } else { Some(*self.rng.pick(&l)) }
    }

    fn comp_letter(&mut self, profile: &str) -> &'static str {
        match profile {
            "sys_split" => *self.rng.pick(&["A", "B", "L", "L"]),
            _ => *self.rng.pick(&["A", "A", "A", "B", "B", "O", "P", "R", "L"]),
        }
    }

    fn comp_val(&mut self, k: &str, profile: &str) -> Option<String> {
        Some(match k {
            "R" => self.live()?.to_string(),
            "L" => {
                if profile == "sys_split" {
                    (*self.rng.pick(&[0u64, 1, 10, 30, 60, 100, 150, 190, 400])).to_string()
                } else {
                    self.rng.below(40).to_string()
                }
            }
            _ => self.v().to_string(),
        })
    }

    fn spawn(&mut self, profile: &str) {
        let e = self.next_ent;
        self.next_ent += 1;
        let mut s = format!("spawn {e} m={}", self.rng.chance(5, 6) as u8);
        for k in ["A", "B", "O", "P", "R", "L"] {
            let p = match (profile, k) { ("sys_split", "L") => 2, ("sys_split", "O" | "P" | "R") => 50, (_, "A") => 2, _ => 4 };
            if self.rng.chance(1, p) {
                if let Some(v) = self.comp_val(k, profile) {
                    s.push_str(&format!(" {k}={v}"));
                }
            }
        }
        self.step(s);
    }

    fn event_op(&mut self) {
        let id = self.v();
        let nclients = self.sys.clients.len() as u64;
        // (not in the wrap-around cases: nobody reconnects there)
        if self.sys.cfg.tickbase == 0 && self.rng.chance(1, 12) {
            // events buffered over frames without a tick, a client joining in between, then the flush
            self.step(format!("sev ord {id} b"));
            self.step("sframe tick=0".into());
            let c = self.rng.below(nclients) as usize;
            if self.sys.clients[c].server_side.is_some() && self.rng.chance(1, 2) {
                self.step(format!("disconnect {c}"));
                self.step("sframe tick=0".into());
                self.step(format!("cframe {c}"));
            }
            let id2 = self.v();
            self.step(format!("sev ord {id2} b"));
            if self.rng.chance(1, 2) { self.step("sframe tick=0".into()); }
            if self.sys.clients[c].server_side.is_none() { self.step(format!("connect {c}")); }
            let id3 = self.v();
            self.step(format!("sev ord {id3} b"));
            self.step("sframe tick=1".into());
            return;
        }
        if self.rng.chance(1, 10) {
            // one client frame that sends an event it cannot translate among events it can
            let c = self.rng.below(nclients) as usize;
            if let Some(e) = self.live() {
                let (a, b, d) = (self.v(), self.v(), self.v());
                let (k1, k2) = (*self.rng.pick(&["map", "trig"]), *self.rng.pick(&["map", "trig"]));
                if self.rng.chance(1, 2) { self.step(format!("cev {c} {k1} {id} {e}")); }
                self.step(format!("cev {c} {k2} {a} 9999"));
                self.step(format!("cev {c} map {b} {e}"));
                self.step(format!("cev {c} trig {d} {e}"));
                self.step(format!("cframe {c}"));
                return;
            }
        }
        if self.rng.chance(3, 5) {
            let kind = *self.rng.pick(&["ord", "ord", "map", "ind", "trig", "unrel"]);
            let mode = match self.rng.below(6) {
                0 | 1 | 2 => "b".to_string(),
                3 => format!("x{}", self.rng.below(nclients)),
                4 => format!("d{}", self.rng.below(nclients)),
                _ => (*self.rng.pick(&["ds", "xs"])).to_string(),
            };
            match (kind, self.live()) {
                ("map" | "trig", Some(e)) => self.step(format!("sev {kind} {id} {mode} {e}")),
                ("map" | "trig", None) => {}
                _ => self.step(format!("sev {kind} {id} {mode}")),
            }
        } else {
            let who = if self.rng.chance(1, 4) { "s".to_string() } else { self.rng.below(nclients).to_string() };
            let kind = *self.rng.pick(&["ord", "ord", "map", "trig"]);
            match (kind, self.live()) {
                ("map" | "trig", Some(e)) => self.step(format!("cev {who} {kind} {id} {e}")),
                ("map" | "trig", None) => {}
                _ => self.step(format!("cev {who} {kind} {id}")),
            }
        }
    }

    fn world_op(&mut self, profile: &str) {
        if profile == "sys_evt" && self.rng.chance(1, 2) {
            self.event_op();
            return;
        }
        if profile == "sys_auth" && self.rng.chance(1, 10) {
            self.probe_id += 1;
            self.step(format!("probe {}", self.probe_id));
            return;
        }
        if matches!(profile, "sys" | "sys_auth" | "sys_split") && self.rng.chance(1, 25) {
            // acknowledgements nobody owes: indices of no message in flight, from any connected client
            // (authorized or not)
            let c = self.rng.below(self.sys.clients.len() as u64) as usize;
            if self.sys.clients[c].server_side.is_some() {
                // indices far above anything in flight: an acknowledgement of a message the client was
                // really sent and did not receive would be a lie the protocol cannot detect
                let n = self.rng.range(1, 4);
                let bytes: Vec<u8> = (0..n).flat_map(|_| { let i = 20000 + self.rng.below(40000) as u16; i.to_le_bytes() }).collect();
                self.step(format!("junk {c} 0 {}", hex(&bytes)));
                return;
            }
        }
        let n_live = self.sys.alive.iter().filter(|a| **a).count();
        let r = self.rng.below(100);
        if n_live == 0 || (r < 14 && n_live < 8) {
            self.spawn(profile);
            return;
        }
        let e = self.live().unwrap();
        let r = if profile == "sys_vis" && self.rng.chance(1, 4) { 85 } else { r };
        match r {
            0..=13 => self.spawn(profile),
            14..=43 => {
                let k = self.comp_letter(profile);
                if let Some(v) = self.comp_val(k, profile) {
                    self.window_muts.push(format!("mut {e} {k}={v}"));
                    self.step(format!("mut {e} {k}={v}"));
                }
            }
            44..=58 => {
                let k = self.comp_letter(profile);
                if let Some(v) = self.comp_val(k, profile) { self.step(format!("ins {e} {k}={v}")); }
            }
            59..=68 => { let k = self.comp_letter(profile); self.step(format!("rem {e} {k}")); }
            69..=75 => self.step(format!("despawn {e}")),
            76..=79 => { let m = self.rng.chance(1, 2) as u8; self.step(format!("mark {e} {m}")); }
            80..=89 => {
                let c = self.rng.below(self.sys.clients.len() as u64);
                let v = self.rng.chance(1, 2) as u8;
                self.step(format!("vis {c} {e} {v}"));
                // repeated and mutually cancelling calls inside one tick window
                if self.rng.chance(1, 2) {
                    let n = self.rng.range(1, 3);
                    let mut cur = v;
                    for _ in 0..n {
                        cur = if self.rng.chance(4, 5) { 1 - cur } else { cur };
                        self.step(format!("vis {c} {e} {cur}"));
                    }
                }
            }
            90..=93 if self.sys.cfg.sync => {
                // half of the time join two existing groups: give the root of a group (children, no
                // parent) a parent elsewhere, so that no new node enters the relation graph
                let roots: Vec<usize> = (0..self.sys.ents.len())
                    .filter(|&i| self.sys.alive[i])
                    .filter(|&i| {
                        let w = self.sys.server.world();
                        let id = self.sys.ents[i].unwrap();
                        w.get::<Children>(id).is_some_and(|c| !c.is_empty()) && w.get::<ChildOf>(id).is_none()
                    })
                    .collect();
                let e = if !roots.is_empty() && self.rng.chance(1, 2) { *self.rng.pick(&roots) } else { e };
                if let Some(p) = self.live() { self.step(format!("rel {e} {p}")); }
            }
            94..=95 if self.sys.cfg.sync => self.step(format!("unrel {e}")),
            _ => {
                // pre-spawn mapping for an entity that is about to be spawned
                let c = self.rng.below(self.sys.clients.len() as u64) as usize;
                let p = self.next_pre[c];
                self.next_pre[c] += 1;
                if self.rng.chance(1, 4) {
                    // … or for an entity the client already knows by name: it was referenced by a
                    // replicated component a tick before it starts to replicate itself
                    let x = self.next_ent;
                    self.next_ent += 2;
                    let v = self.v();
                    self.step(format!("spawn {x} m=0 A={v}"));
                    self.step(format!("spawn {} m=1 R={x}", x + 1));
                    self.step("sframe tick=1".into());
                    self.network(0);
                    self.step(format!("cframe {c}"));
                    self.network(0);
                    self.step(format!("cspawn {c} {p}"));
                    self.step(format!("map {c} {x} {p}"));
                    self.step(format!("mark {x} 1"));
                    return;
                }
                self.step(format!("cspawn {c} {p}"));
                self.spawn(profile);
                let e2 = self.next_ent - 1;
                if self.rng.chance(1, 5) { self.step(format!("cdespawn {c} {p}")); }
                self.step(format!("map {c} {e2} {p}"));
                if self.rng.chance(1, 6) {
                    // the client's game despawns the adopted entity itself, with nothing for it in flight;
                    // the server despawns its entity in the same tick window: the despawn record arrives
                    // for a client entity that no longer exists
                    self.step("sframe tick=1".into());
                    self.network(0);
                    for k in 0..self.sys.clients.len() { self.step(format!("cframe {k}")); }
                    self.network(0);
                    self.step("sframe tick=1".into());
                    self.network(0);
                    for k in 0..self.sys.clients.len() { self.step(format!("cframe {k}")); }
                    self.network(0);
                    // only if the entity really was adopted (it is replicated and visible to the client)
                    let adopted = match (self.sys.ents.get(e2).copied().flatten(), self.sys.clients[c].pre.get(p).copied().flatten()) {
                        (Some(se), Some(pe)) => !self.sys.clients[c].panicked && !self.sys.server_panicked
                            && self.sys.clients[c].app.world().resource::<ServerEntityMap>().to_client().get(&se) == Some(&pe)
                            && self.sys.server.world().get_entity(se).is_ok_and(|e| e.contains::<Replicated>())
                            && self.sys.clients[c].server_side.is_some_and(|ce| {
                                self.sys.server.world().get::<ClientVisibility>(ce).is_none_or(|v| v.is_visible(se))
                            }),
                        _ => false,
                    };
                    if adopted {
                        self.step(format!("cdespawn {c} {p}"));
                        self.step(format!("despawn {e2}"));
                        self.step("sframe tick=1".into());
                        self.network(0);
                        self.step(format!("cframe {c}"));
                        self.network(0);
                    }
                }
            }
        }
    }

    /// deliver / drop decisions for everything queued, according to a link mood
    fn network(&mut self, mood: u64) {
        for c in 0..self.sys.clients.len() {
            for s2c in [true, false] {
                let nch = if s2c { self.sys.n_server_channels } else { self.sys.n_client_channels };
                for ch in 0..nch {
                    let unreliable = s2c && ch == 1;
                    let dir = if s2c { "s2c" } else { "c2s" };
                    loop {
                        let len = if s2c { self.sys.clients[c].s2c[ch].len() } else { self.sys.clients[c].c2s[ch].len() };
                        if len == 0 { break; }
                        // moods: 0 perfect, 1 hold the reliable channels, 2 lossy, 3 reorder, 4 starve acks, 5 random,
                        // 6 hold only the update channel (events and mutations overtake it)
                        let hold = match mood {
                            0 => false,
                            1 => !unreliable && s2c && self.rng.chance(4, 5),
                            6 => s2c && ch == 0 && self.rng.chance(5, 6),
                            2 => self.rng.chance(1, 4),
                            3 => self.rng.chance(1, 3),
                            4 => !s2c && self.rng.chance(5, 6),
                            _ => self.rng.chance(1, 2),
                        };
                        if hold { break; }
                        if unreliable {
                            let k = if mood == 3 || mood == 5 { self.rng.below(len as u64) } else { 0 };
                            let lose = match mood { 2 => self.rng.chance(1, 3), 5 => self.rng.chance(1, 6), _ => false };
                            self.step(format!("{} {c} {dir} {ch} {k}", if lose { "drop" } else { "deliver" }));
                        } else {
                            self.step(format!("deliver {c} {dir} {ch} 0"));
                        }
                    }
                }
            }
        }
    }

    /// A server whose tick wraps around while clients are connected.  Every client has received its
    /// first update message before anything may overtake it (a client that has received nothing
    /// cannot tell so: known finding F20), nobody reconnects; otherwise loss, delay and reordering
    /// as in the other cases.
    fn run_wrap(&mut self, profile: &str) {
        let nclients = self.sys.clients.len();
        self.step("start".into());
        // one replicated entity every client can see: every client gets a first update message
        let e0 = self.next_ent;
        self.next_ent += 1;
        let a = self.v();
        self.step(format!("spawn {e0} m=1 A={a}"));
        for _ in 0..self.rng.range(0, 2) { self.spawn(profile); }
        for c in 0..nclients { self.step(format!("connect {c}")); }
        for c in 0..nclients { self.step(format!("vis {c} {e0} 1")); }
        self.step("sframe tick=1".into());
        self.network(0);
        for c in 0..nclients { self.step(format!("cframe {c}")); }
        self.network(0);
        let steps = self.rng.range(60, 160);
        let mut mood = *self.rng.pick(&[0u64, 0, 2, 3, 4, 5]);
        for _ in 0..steps {
            if self.rng.chance(1, 10) { mood = *self.rng.pick(&[0u64, 0, 2, 3, 4, 5]); }
            match self.rng.below(100) {
                0..=39 => self.world_op(profile),
                40..=69 => {
                    let tick = self.rng.chance(4, 5) as u8;
                    self.step(format!("sframe tick={tick}"));
                    self.network(mood);
                }
                70..=92 => {
                    let c = self.rng.below(nclients as u64);
                    self.network(mood);
                    self.step(format!("cframe {c}"));
                }
                _ => self.network(5),
            }
        }
        self.step(format!("flush {}", 3 + PERIOD + 1));
    }

    fn run(&mut self, profile: &str) {
        let nclients = self.sys.clients.len();
        if profile == "sys_evt" && self.rng.chance(1, 3) {
            // singleplayer phase: events before the server is started
            for _ in 0..self.rng.range(1, 4) { self.event_op(); }
            self.step("sframe tick=0".into());
        }
        self.step("start".into());
        // some content before anybody connects
        for _ in 0..self.rng.below(3) { self.spawn(profile); }
        for c in 0..nclients {
            if c == 0 || self.rng.chance(3, 4) { self.step(format!("connect {c}")); }
        }
        if profile == "sys_split" {
            let m = *self.rng.pick(&[1u64, 40, 120, 200, 1200]);
            self.step(format!("maxsize 0 {m}"));
        }
        if self.sys.cfg.auth == "custom" {
            for c in 0..nclients { if self.rng.chance(1, 2) { self.step(format!("auth {c}")); } }
        }
        if profile == "sys_split" && self.sys.cfg.sync && self.rng.chance(1, 4) {
            // relation churn: edges of the hierarchy removed and created in turn, then every member
            // changes in one tick against a max size that gives each group its own message
            let base = self.next_ent;
            let n = self.rng.range(4, 6) as usize;
            for _ in 0..n {
                let e = self.next_ent;
                self.next_ent += 1;
                let a = self.v();
                self.step(format!("spawn {e} m=1 A={a} L=5"));
            }
            for _ in 0..self.rng.range(2, 3) {
                let (x, y) = (base + self.rng.below(n as u64) as usize, base + self.rng.below(n as u64) as usize);
                self.step(format!("rel {x} {y}"));
            }
            self.step("sframe tick=1".into());
            self.network(0);
            self.step("cframe 0".into());
            self.network(0);
            for _ in 0..self.rng.range(3, 7) {
                let (x, y) = (base + self.rng.below(n as u64) as usize, base + self.rng.below(n as u64) as usize);
                if self.rng.chance(1, 3) { self.step(format!("unrel {x}")); } else { self.step(format!("rel {x} {y}")); }
                if self.rng.chance(1, 5) { self.step("sframe tick=1".into()); self.network(0); self.step("cframe 0".into()); self.network(0); }
            }
            self.step("sframe tick=1".into());
            self.network(0);
            self.step("cframe 0".into());
            self.network(0);
            if self.rng.chance(1, 3) {
                // the server restarts; the relations are dissolved while it is down; afterwards every former
                // member changes by 100 bytes against a max size that fits one of them
                self.step("stop".into());
                self.step("sframe tick=0".into());
                for i in 0..n { self.step(format!("unrel {}", base + i)); }
                self.step("cframe 0".into());
                self.step("start".into());
                self.step("connect 0".into());
                for _ in 0..2 {
                    self.step("sframe tick=1".into());
                    self.network(0);
                    self.step("cframe 0".into());
                    self.network(0);
                }
                self.step("maxsize 0 130".into());
                for i in 0..n { self.step(format!("mut {} L=100", base + i)); }
                self.step("sframe tick=1".into());
                self.network(5);
                self.step("cframe 0".into());
                self.network(0);
            }
            self.step("maxsize 0 1".into());
            for i in 0..n { let a = self.v(); self.step(format!("mut {} A={a}", base + i)); }
            self.step("sframe tick=1".into());
            self.network(5);
            self.step("cframe 0".into());
            self.network(0);
            let m = *self.rng.pick(&[1u64, 40, 120, 200, 1200]);
            self.step(format!("maxsize 0 {m}"));
        }
        if profile == "sys_split" && self.rng.chance(1, 4) {
            // acknowledged (or timed-out) mutate messages first, then a tick split into one message
            // per entity of which only some arrive, then a change of another component
            let base = self.next_ent;
            let n = self.rng.range(2, 4) as usize;
            for _ in 0..n {
                let e = self.next_ent;
                self.next_ent += 1;
                let (a, l) = (self.v(), self.rng.range(5, 40));
                self.step(format!("spawn {e} m=1 A={a} L={l}"));
            }
            let round = |g: &mut Gen| {
                g.step("sframe tick=1".into());
                g.network(0);
                g.step("cframe 0".into());
                g.network(0);
            };
            round(self);
            round(self);
            for i in 0..n { let l = self.rng.range(5, 40); self.step(format!("mut {} L={l}", base + i)); }
            if self.rng.chance(1, 2) {
                // … acknowledged
                round(self);
                self.step("sframe tick=1".into());
            } else {
                // … or lost and timed out
                self.step("sframe tick=1".into());
                while !self.sys.clients[0].s2c[1].is_empty() { self.step("drop 0 s2c 1 0".into()); }
                self.step("sframe tick=0 ms=500".into());
                self.step("sframe tick=0 ms=500".into());
                self.step("sframe tick=0 ms=500".into());
            }
            self.step("maxsize 0 130".into());
            for i in 0..n { self.step(format!("mut {} L=100", base + i)); }
            self.step("sframe tick=1".into());
            // one of the parts arrives and is acknowledged, the others are lost
            let parts = self.sys.clients[0].s2c[1].len();
            if parts > 0 {
                let keep = self.rng.below(parts as u64) as usize;
                for k in (0..parts).rev() {
                    self.step(format!("{} 0 s2c 1 {k}", if k == keep { "deliver" } else { "drop" }));
                }
            }
            while !self.sys.clients[0].s2c[0].is_empty() { self.step("deliver 0 s2c 0 0".into()); }
            self.step("cframe 0".into());
            self.network(0);
            self.step("sframe tick=1".into());
            self.step("maxsize 0 1200".into());
            let e = base + self.rng.below(n as u64) as usize;
            let a = self.v();
            self.step(format!("mut {e} A={a}"));
            round(self);
            round(self);
        }
        if profile == "sys_split" && self.sys.cfg.sync && self.rng.chance(1, 3) {
            // two groups that are replicated and known, then joined by an edge between existing
            // nodes of the relation graph, then mutated together against a small message size
            let base = self.next_ent;
            for _ in 0..4 {
                let e = self.next_ent;
                self.next_ent += 1;
                let l = self.rng.range(10, 60);
                self.step(format!("spawn {e} m=1 L={l}"));
            }
            self.step(format!("rel {} {}", base + 1, base));
            self.step(format!("rel {} {}", base + 3, base + 2));
            for _ in 0..2 {
                self.step("sframe tick=1".into());
                self.network(0);
                self.step("cframe 0".into());
                self.network(0);
            }
            let other = base + 2 + self.rng.below(2) as usize;
            self.step(format!("rel {base} {other}"));
            if self.rng.chance(1, 2) {
                self.step("sframe tick=1".into());
                self.network(0);
                self.step("cframe 0".into());
            }
            let m = *self.rng.pick(&[60u64, 80, 100, 140]);
            self.step(format!("maxsize 0 {m}"));
            for i in 0..4 {
                if self.rng.chance(4, 5) {
                    let l = self.rng.range(10, 60);
                    self.step(format!("mut {} L={l}", base + i));
                }
            }
            self.step("sframe tick=1".into());
            let mood = self.rng.below(6);
            self.network(mood);
            self.step("cframe 0".into());
        }
        let steps = self.rng.range(6, 40);
        if matches!(profile, "sys" | "sys_split") && self.case_id % 9 == 4 && !self.sys.server_panicked {
            // a removal buffered in one frame of a tick window, its entity despawned in a later frame of the
            // window, then a removal of another kind on another entity (no draws from `rng`)
            let (e1, e2) = (self.next_ent, self.next_ent + 1);
            self.next_ent += 2;
            let (a, b) = (self.v(), self.v());
            self.step(format!("spawn {e1} m=1 A={a} B={b}"));
            self.step(format!("spawn {e2} m=1 A={a} B={b}"));
            self.step("sframe tick=1".into());
            self.network(0);
            self.step("cframe 0".into());
            self.network(0);
            self.step(format!("rem {e1} A"));
            self.step("sframe tick=0".into());
            self.step(format!("despawn {e1}"));
            self.step("sframe tick=0".into());
            self.step(format!("rem {e2} B"));
            self.step("sframe tick=1".into());
            self.network(0);
            self.step("cframe 0".into());
            self.network(0);
        }
        let nmoods = if profile == "sys_evt" { 8 } else { 6 };
        let mut mood = self.rng.below(nmoods).min(6);
        for _ in 0..steps {
            if self.rng.chance(1, 8) { mood = self.rng.below(nmoods).min(6); }
            if profile == "sys_auth" && nclients >= 2 && self.rng.chance(1, 15) {
                // a connection that is not authorized talks on the acknowledgement channel just before
                // an authorized client's acknowledgement arrives
                let is_auth = |g: &Gen, c: usize| g.sys.clients[c].server_side.is_some_and(|ce| g.sys.server.world().get_entity(ce).is_ok_and(|e| e.contains::<AuthorizedClient>()));
                let unauth: Vec<usize> = (0..nclients).filter(|&c| self.sys.clients[c].server_side.is_some() && !is_auth(self, c) && !self.sys.clients[c].panicked).collect();
                let authd: Vec<usize> = (0..nclients).filter(|&c| is_auth(self, c) && !self.sys.clients[c].panicked).collect();
                if !unauth.is_empty() && !authd.is_empty() && !self.sys.server_panicked {
                    let (u, v) = (*self.rng.pick(&unauth), *self.rng.pick(&authd));
                    if let Some(e) = self.live() {
                        let k = self.comp_letter(profile);
                        if let Some(val) = self.comp_val(k, profile) { self.step(format!("mut {e} {k}={val}")); }
                    }
                    self.step("sframe tick=1".into());
                    self.network(0);
                    self.step(format!("cframe {v}"));
                    let bytes = self.template("acks");
                    self.step(format!("junk {u} 0 {}", hex(&bytes)));
                    self.network(0);
                    self.step("sframe tick=1".into());
                    self.network(0);
                    continue;
                }
            }
            match self.rng.below(100) {
                0..=44 => self.world_op(profile),
                45..=64 => {
                    let mut tick = self.rng.chance(2, 3) as u32;
                    // the manual tick policy may advance the tick by any amount (varint lengths of the ticks
                    // on the wire change at 128; the mutate-tick window is 64 wide)
                    if tick == 1 && (profile != "sys_split" || self.sys.cfg.track) && self.rng.chance(1, 12) {
                        tick = *self.rng.pick(&[2u32, 3, 60, 64, 65, 100, 127, 128, 129, 200]);
                    }
                    self.step(format!("sframe tick={tick}"));
                    if tick == 1 {
                        let muts = std::mem::take(&mut self.window_muts);
                        let lens = self.sys.last_mutate_lens.clone();
                        if profile == "sys_split" && lens.len() >= 2 && self.rng.chance(1, 2) {
                            // a split tick: part of it is lost, the rest is delivered and acknowledged
                            let n = self.sys.clients[0].s2c[1].len();
                            for k in (0..n).rev() {
                                let lose = self.rng.chance(1, 2);
                                self.step(format!("{} 0 s2c 1 {k}", if lose { "drop" } else { "deliver" }));
                            }
                            while !self.sys.clients[0].s2c[0].is_empty() { self.step("deliver 0 s2c 0 0".into()); }
                            self.step("cframe 0".into());
                            while !self.sys.clients[0].c2s[0].is_empty() { self.step("deliver 0 c2s 0 0".into()); }
                            self.step("sframe tick=1".into());
                        }
                        if profile == "sys_split" && !lens.is_empty() && !muts.is_empty() && self.rng.chance(1, 2) {
                            // repeat the same mutations against a max size that fits exactly / off by one
                            let hdr = 4 + self.sys.cfg.track as usize;
                            let total: usize = hdr + lens.iter().map(|l| l.saturating_sub(hdr)).sum::<usize>();
                            let biggest = *lens.iter().max().unwrap();
                            let base = *self.rng.pick(&[total, total, biggest, total + 9, biggest + 9]);
                            let m = (base as i64 + *self.rng.pick(&[-1i64, 0, 0, 1])).max(1);
                            self.step(format!("maxsize 0 {m}"));
                            for l in &muts { self.step(l.clone()); }
                            self.step("sframe tick=1".into());
                        }
                    }
                    self.network(mood);
                }
                65..=84 => {
                    let c = self.rng.below(nclients as u64);
                    self.network(mood);
                    self.step(format!("cframe {c}"));
                }
                85..=88 => self.network(5),
                89..=90 if profile == "sys" || profile == "sys_evt" || (profile == "sys_split" && self.sys.cfg.track) || (profile == "sys_auth" && self.sys.cfg.auth != "check") => {
                    let c = self.rng.below(nclients as u64);
                    if self.sys.clients[c as usize].server_side.is_some() {
                        let mut left_buffered = None;
                        if self.rng.chance(1, 2) {
                            // leave the session with a mutate message buffered on the client: a tick
                            // that mutates and spawns, of which only the mutations channel is delivered
                            if let Some(e) = self.live() {
                                let v = self.v();
                                self.step(format!("mut {e} A={v}"));
                                left_buffered = Some(e);
                            }
                            self.spawn(profile);
                            self.step("sframe tick=1".into());
                            while !self.sys.clients[c as usize].s2c[1].is_empty() { self.step(format!("deliver {c} s2c 1 0")); }
                            self.step(format!("cframe {c}"));
                        }
                        if profile == "sys_evt" && self.rng.chance(1, 3) {
                            // an event sent long before the session ends: it has left Bevy's event buffer
                            let id = self.v();
                            let kind = *self.rng.pick(&["ord", "ord", "trig"]);
                            if kind == "trig" {
                                match self.live() { Some(e) => self.step(format!("cev {c} trig {id} {e}")), None => self.step(format!("cev {c} ord {id}")) }
                            } else {
                                self.step(format!("cev {c} ord {id}"));
                            }
                            for _ in 0..self.rng.range(10, 14) {
                                self.step(format!("cframe {c}"));
                                if self.rng.chance(1, 3) { self.network(0); self.step("sframe tick=1".into()); self.network(0); }
                            }
                        }
                        self.step(format!("disconnect {c}"));
                        if profile == "sys_evt" && self.rng.chance(1, 2) {
                            // the game keeps sending before the client app has noticed the disconnect
                            let id = self.v();
                            self.step(format!("cev {c} ord {id}"));
                        }
                        self.step("sframe tick=0".into());
                        self.step(format!("cframe {c}"));
                        if left_buffered.is_some() && self.rng.chance(1, 2) {
                            // … come back at once; whatever the client acknowledges in its first frame reaches
                            // the server only after the new session's first mutate message went out and was
                            // lost; then another component of the same entity changes
                            let e = left_buffered.unwrap();
                            self.step(format!("connect {c}"));
                            self.step("sframe tick=1".into());
                            for ch in 0..self.sys.n_server_channels {
                                while !self.sys.clients[c as usize].s2c[ch].is_empty() { self.step(format!("deliver {c} s2c {ch} 0")); }
                            }
                            self.step(format!("cframe {c}"));
                            let v = self.v();
                            self.step(format!("mut {e} A={v}"));
                            self.step("sframe tick=1".into());
                            while !self.sys.clients[c as usize].s2c[1].is_empty() { self.step(format!("drop {c} s2c 1 0")); }
                            while !self.sys.clients[c as usize].c2s[0].is_empty() { self.step(format!("deliver {c} c2s 0 0")); }
                            self.step("sframe tick=1".into());
                            let v = self.v();
                            self.step(format!("mut {e} B={v}"));
                            for _ in 0..2 {
                                self.step("sframe tick=1".into());
                                self.network(0);
                                self.step(format!("cframe {c}"));
                                self.network(0);
                            }
                        } else if self.rng.chance(1, 2) {
                            // … and come back at once
                            self.step(format!("connect {c}"));
                            for _ in 0..2 {
                                self.step("sframe tick=1".into());
                                self.network(0);
                                self.step(format!("cframe {c}"));
                                self.network(0);
                            }
                        }
                    } else {
                        self.step(format!("connect {c}"));
                    }
                }
                91 if profile == "sys" || profile == "sys_evt" || (profile == "sys_split" && self.sys.cfg.track) => {
                    if profile == "sys_evt" && self.rng.chance(1, 2) {
                        // the server stops with events still buffered for the next tick
                        for _ in 0..self.rng.range(1, 3) {
                            let id = self.v();
                            let kind = *self.rng.pick(&["ord", "ord", "ind", "unrel"]);
                            self.step(format!("sev {kind} {id} b"));
                        }
                        self.step("sframe tick=0".into());
                    }
                    // the server stops with a removal (and perhaps a despawn) buffered for the next tick;
                    // the entity goes away while the server is down
                    let mut doomed = None;
                    if self.rng.chance(1, 2) {
                        if let Some(e) = self.live() {
                            let k = *self.rng.pick(&["A", "B"]);
                            self.step(format!("rem {e} {k}"));
                            self.step("sframe tick=0".into());
                            doomed = Some(e);
                        }
                    }
                    self.step("stop".into());
                    self.step("sframe tick=0".into());
                    if let Some(e) = doomed {
                        if self.rng.chance(2, 3) { self.step(format!("despawn {e}")); } else { self.step(format!("mark {e} 0")); }
                    }
                    for c in 0..nclients { self.step(format!("cframe {c}")); }
                    self.step("start".into());
                    for c in 0..nclients { if self.rng.chance(3, 4) { self.step(format!("connect {c}")); } }
                }
                92..=93 if self.sys.cfg.auth == "custom" => {
                    let c = self.rng.below(nclients as u64);
                    self.step(format!("auth {c}"));
                }
                92..=93 if profile == "sys_auth" && self.sys.cfg.auth == "check" => {
                    // a client whose handshake arrives and whose connection is gone before the server's frame
                    let c = self.rng.below(nclients as u64) as usize;
                    if !self.sys.clients[c].panicked {
                        if self.sys.clients[c].server_side.is_none() { self.step(format!("connect {c}")); }
                        self.step(format!("cframe {c}"));
                        while !self.sys.clients[c].c2s[1].is_empty() { self.step(format!("deliver {c} c2s 1 0")); }
                        self.step(format!("disconnect {c}"));
                        self.step("sframe tick=1".into());
                        self.step(format!("cframe {c}"));
                    }
                }
                94 => self.step("sframe tick=0 ms=500".into()),
                95..=96 if profile == "sys_split" => {
                    let m = *self.rng.pick(&[1u64, 40, 120, 200, 1200]);
                    self.step(format!("maxsize 0 {m}"));
                }
                _ => {
                    let tick = self.rng.chance(1, 2) as u8;
                    self.step(format!("sframe tick={tick}"));
                }
            }
        }
        self.step(format!("flush {}", 3 + PERIOD + 1));
    }
}
