//! C14: `ProtocolHash` of apps built from generated registration sequences, single-step edits of
//! them, and the default-authorization handshake between a server and a client built from two
//! sequences.

use std::any::type_name;
use std::io::Write;
use std::panic::{AssertUnwindSafe, catch_unwind};

use bevy::prelude::*;
use bevy_replicon::prelude::*;
use bevy_replicon::shared::replication::replication_rules::IntoReplicationRule;
use bevy_replicon::test_app::ServerTestAppExt;
use serde::{Deserialize, Serialize};

use crate::rng::{Rng, hex};
use crate::{Opts, Out};

#[derive(Component, Serialize, Deserialize, Clone, Default)]
struct A(u32);
#[derive(Component, Serialize, Deserialize, Clone, Default)]
struct B(u32);
#[derive(Component, Serialize, Deserialize, Clone, Default)]
struct Ab(u32); // type name is a proper prefix-sibling of others: exercises the name terminator
#[derive(Event, Serialize, Deserialize, Clone)]
struct E1;
#[derive(Event, Serialize, Deserialize, Clone)]
struct E2;
#[derive(Event, Serialize, Deserialize, Clone)]
struct T1;
#[derive(Event, Serialize, Deserialize, Clone)]
struct S1;
#[derive(Event, Serialize, Deserialize, Clone)]
struct S2;
#[derive(Event, Serialize, Deserialize, Clone)]
struct St1;
#[derive(Event, Serialize, Deserialize, Clone)]
struct St2;

pub const MENU_LEN: usize = 28;

/// Applies menu item `i`; returns what the hasher must have been fed: (kind, priority, type name).
fn apply(app: &mut App, i: usize) -> (u8, u64, &'static str) {
    fn dp<R: IntoReplicationRule>(_: &R) -> u64 {
        R::DEFAULT_PRIORITY as u64
    }
    match i {
        0 => { app.replicate::<A>(); (0, dp(&RuleFns::<A>::default()), type_name::<RuleFns<A>>()) }
        1 => { app.replicate::<B>(); (0, dp(&RuleFns::<B>::default()), type_name::<RuleFns<B>>()) }
        2 => { app.replicate::<Ab>(); (0, 1, type_name::<RuleFns<Ab>>()) }
        3 => { app.replicate_once::<A>(); (0, dp(&(RuleFns::<A>::default(), SendRate::Once)), type_name::<(RuleFns<A>, SendRate)>()) }
        4 => { app.replicate_bundle::<(A, B)>(); (1, 0, type_name::<(A, B)>()) }
        5 => { app.replicate_bundle::<(B, A)>(); (1, 0, type_name::<(B, A)>()) }
        6 => { app.replicate_with_priority(0, RuleFns::<A>::default()); (0, 0, type_name::<RuleFns<A>>()) }
        7 => { app.replicate_with_priority(2, RuleFns::<A>::default()); (0, 2, type_name::<RuleFns<A>>()) }
        8 => { app.replicate_with_priority(257, RuleFns::<A>::default()); (0, 257, type_name::<RuleFns<A>>()) }
        9 => { app.replicate_with_priority(1 << 40, RuleFns::<A>::default()); (0, 1 << 40, type_name::<RuleFns<A>>()) }
        10 => { app.replicate_with((RuleFns::<A>::default(), RuleFns::<B>::default())); (0, 2, type_name::<(RuleFns<A>, RuleFns<B>)>()) }
        11 => { app.add_client_event::<E1>(Channel::Ordered); (2, 0, type_name::<E1>()) }
        12 => { app.add_client_event::<E2>(Channel::Unordered); (2, 0, type_name::<E2>()) }
        13 => { app.add_client_trigger::<T1>(Channel::Ordered); (3, 0, type_name::<T1>()) }
        14 => { app.add_server_event::<S1>(Channel::Ordered); (4, 0, type_name::<S1>()) }
        15 => { app.add_server_event::<S2>(Channel::Unreliable); (4, 0, type_name::<S2>()) }
        16 => { app.add_server_trigger::<St1>(Channel::Ordered); (5, 0, type_name::<St1>()) }
        17 => { app.add_server_trigger::<St2>(Channel::Ordered); (5, 0, type_name::<St2>()) }
        18 => { app.make_event_independent::<S1>(); (6, 0, type_name::<S1>()) }
        19 => { app.make_event_independent::<S2>(); (6, 0, type_name::<S2>()) }
        20 => { app.make_trigger_independent::<St1>(); (7, 0, type_name::<St1>()) }
        21 => { app.make_trigger_independent::<St2>(); (7, 0, type_name::<St2>()) }
        // one type registered both as an event and as a trigger: which of the two is independent matters
        22 => { app.add_server_trigger::<S1>(Channel::Ordered); (5, 0, type_name::<S1>()) }
        23 => { app.make_trigger_independent::<S1>(); (7, 0, type_name::<S1>()) }
        24 => { app.add_server_event::<St1>(Channel::Ordered); (4, 0, type_name::<St1>()) }
        25 => { app.make_event_independent::<St1>(); (6, 0, type_name::<St1>()) }
        // the client-side counterpart: one type as a client event in one build, as a client trigger in the other
        26 => { app.add_client_trigger::<E1>(Channel::Ordered); (3, 0, type_name::<E1>()) }
        27 => { app.add_client_event::<T1>(Channel::Ordered); (2, 0, type_name::<T1>()) }
        _ => panic!("menu index"),
    }
}

fn parse_seq(s: &str) -> Vec<usize> {
    if s == "-" { vec![] } else { s.split(',').map(|x| x.parse().unwrap()).collect() }
}

fn build(seq: &[usize]) -> Option<(App, Vec<(u8, u64, &'static str)>)> {
    catch_unwind(AssertUnwindSafe(|| {
        let mut app = App::new();
        app.add_plugins((
            MinimalPlugins,
            RepliconPlugins.set(ServerPlugin { tick_policy: TickPolicy::EveryFrame, ..Default::default() }),
        ));
        // registrations made by RepliconSharedPlugin itself under the default AuthMethod::ProtocolCheck
        let mut regs: Vec<(u8, u64, &'static str)> = vec![
            (3, 0, type_name::<ProtocolHash>()),
            (5, 0, type_name::<ProtocolMismatch>()),
            (7, 0, type_name::<ProtocolMismatch>()),
        ];
        regs.extend(seq.iter().map(|&i| apply(&mut app, i)));
        app.finish();
        (app, regs)
    }))
    .ok()
}

fn regs_str(regs: &[(u8, u64, &'static str)]) -> String {
    if regs.is_empty() {
        return "-".into();
    }
    regs.iter().map(|(k, p, n)| format!("{k}:{p}:{}", hex(n.as_bytes()))).collect::<Vec<_>>().join(";")
}

#[derive(Resource, Default)]
struct Mismatch(bool);

pub fn exec(line: &str, out: &mut Out) {
    writeln!(out, "{line}").unwrap();
    let t: Vec<&str> = line.split(' ').collect();
    let a = parse_seq(&t[1][2..]);
    let b = parse_seq(&t[2][2..]);
    match t[0] {
        "c14pair" => {
            for (label, seq) in [("a", &a), ("b", &b), ("a2", &a)] {
                match build(seq) {
                    Some((app, regs)) => {
                        let h = app.world().resource::<ProtocolHash>();
                        let dbg = format!("{h:?}");
                        let hv: u64 = dbg.chars().filter(|c| c.is_ascii_digit()).collect::<String>().parse().unwrap();
                        writeln!(out, "= {label} hash={hv} regs={}", regs_str(&regs)).unwrap();
                    }
                    None => writeln!(out, "= {label} rejected").unwrap(),
                }
            }
        }
        "c14hs" => {
            let (Some((mut server, _)), Some((mut client, _))) = (build(&a), build(&b)) else {
                writeln!(out, "= rejected").unwrap();
                return;
            };
            let r = catch_unwind(AssertUnwindSafe(|| {
                client.init_resource::<Mismatch>();
                client.add_observer(|_t: Trigger<ProtocolMismatch>, mut m: ResMut<Mismatch>| m.0 = true);
                let hs = *server.world().resource::<ProtocolHash>();
                let hc = *client.world().resource::<ProtocolHash>();
                server.connect_client(&mut client);
                let mut disconnect = false;
                let mut stray = 0usize;
                for _ in 0..3 {
                    {
                        // a disconnect has to be requested for the client that sent the hash, not for anything else
                        let clients: Vec<Entity> = server.world_mut().query_filtered::<Entity, With<ConnectedClient>>().iter(server.world()).collect();
                        let mut ev = server.world_mut().resource_mut::<Events<DisconnectRequest>>();
                        for r in ev.drain() {
                            if clients.contains(&r.client) { disconnect = true; } else { stray += 1; }
                        }
                    }
                    server.update();
                    server.exchange_with_client(&mut client);
                    client.update();
                    server.exchange_with_client(&mut client);
                }
                let authorized = server.world_mut().query::<(&ConnectedClient, &AuthorizedClient)>().iter(server.world()).count();
                let connected = server.world_mut().query::<&ConnectedClient>().iter(server.world()).count();
                format!(
                    "authorized={authorized} connected={connected} mismatch={} disconnect={} stray={stray} same_hash={}",
                    client.world().resource::<Mismatch>().0 as u8,
                    disconnect as u8,
                    (hs == hc) as u8
                )
            }));
            match r {
                Ok(s) => writeln!(out, "= {s}").unwrap(),
                Err(_) => writeln!(out, "= panic").unwrap(),
            }
        }
        _ => unreachable!(),
    }
}

fn rand_seq(rng: &mut Rng) -> Vec<usize> {
    let n = match rng.below(6) { 0 => 0, 1 => 1, _ => rng.range(2, 7) };
    let mut s: Vec<usize> = Vec::new();
    for _ in 0..n {
        let i = rng.below(MENU_LEN as u64) as usize;
        // events may be registered once; independence needs the registration first
        if i >= 11 && s.contains(&i) { continue; }
        if (18..=21).contains(&i) && !s.contains(&(i - 4)) { s.push(i - 4); }
        if (i == 23 || i == 25) && !s.contains(&(i - 1)) { s.push(i - 1); }
        s.push(i);
    }
    s
}

fn edit(rng: &mut Rng, a: &[usize]) -> Vec<usize> {
    let mut b = a.to_vec();
    match rng.below(5) {
        0 if b.len() >= 2 => { let i = rng.below(b.len() as u64 - 1) as usize; b.swap(i, i + 1); }
        1 => { let i = rng.below(b.len() as u64 + 1) as usize; b.insert(i, rng.below(18) as usize); }
        2 if !b.is_empty() => { let i = rng.below(b.len() as u64) as usize; b.remove(i); }
        3 if !b.is_empty() => {
            // change of kind / priority / type in place
            let i = rng.below(b.len() as u64) as usize;
            b[i] = match b[i] { 0 => *rng.pick(&[6, 7, 8, 9, 1, 2, 3]), 6 => 7, 7 => 8, 8 => 9, 4 => 5, 11 => *rng.pick(&[12, 26]), 13 => 27, 26 => 11, 27 => 13, 14 => *rng.pick(&[15, 22]), 16 => *rng.pick(&[17, 24]), 22 => 14, 24 => 16, x => (x + 1) % 18 };
        }
        _ => {}
    }
    b
}

fn s(seq: &[usize]) -> String {
    if seq.is_empty() { "-".into() } else { seq.iter().map(|x| x.to_string()).collect::<Vec<_>>().join(",") }
}

pub fn generate(opts: &Opts, out: &mut Out) {
    let mut rng = Rng::new(opts.seed ^ 0xC14);
    let n = if opts.thorough { 20_000 } else { 1_200 };
    for _ in 0..n {
        let mut a = rand_seq(&mut rng);
        let mut b = edit(&mut rng, &a);
        if rng.chance(1, 10) {
            // the same registrations, a type that is both an event and a trigger, and a different one of
            // the two marked independent
            let (ev, tr, ie, it) = if rng.chance(1, 2) { (14, 22, 18, 23) } else { (24, 16, 25, 20) };
            a.retain(|x| ![ie, it].contains(x));
            for r in [ev, tr] { if !a.contains(&r) { a.push(r); } }
            b = a.clone();
            a.push(ie);
            b.push(it);
        }
        exec(&format!("c14pair a={} b={}", s(&a), s(&b)), out);
    }
    let n = if opts.thorough { 6_000 } else { 400 };
    for k in 0..n {
        let mut a = rand_seq(&mut rng);
        let mut b = if k % 3 == 0 { a.clone() } else { edit(&mut rng, &a) };
        if k % 3 != 0 && rng.chance(1, 8) {
            let (ev, tr, ie, it) = if rng.chance(1, 2) { (14, 22, 18, 23) } else { (24, 16, 25, 20) };
            a.retain(|x| ![ie, it].contains(x));
            for r in [ev, tr] { if !a.contains(&r) { a.push(r); } }
            b = a.clone();
            a.push(ie);
            b.push(it);
        }
        exec(&format!("c14hs a={} b={}", s(&a), s(&b)), out);
    }
}
